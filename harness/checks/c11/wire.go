package c11

import (
	"fmt"
	"math"
	"runtime/debug"
	"strings"

	"github.com/tendermint/tendermint/crypto/ed25519"
	cryptoenc "github.com/tendermint/tendermint/crypto/encoding"
	tmproto "github.com/tendermint/tendermint/proto/tendermint/types"
	"github.com/tendermint/tendermint/types"
)

// ---------------------------------------------------------------------------
// Hostile encoders.  Evidence that arrives over the wire is whatever bytes the
// sender chose: the conflicting light block of light-client-attack evidence
// carries a tmproto.ValidatorSet whose total_voting_power, proposer and
// proposer_priority fields are covered by no hash and no signature, and the
// ByzantineValidators entries carry a proposer_priority nobody looks at.  A
// wireMut rewrites those fields between ToProto and FromProto.  It changes
// nothing the evidence claims, so the reference verdict (tallies over the
// validators' real powers, fixed at generation) is that of the item it was
// applied to: a forged cached total must make neither insufficiently signed
// evidence admissible nor valid evidence inadmissible.
// ---------------------------------------------------------------------------

type wireMut struct {
	name string
	// malformed: the mutated message is not a well-formed validator set (no
	// proposer, proposer without a usable address, negative power).  A decoder
	// may refuse it; that is counted, and no verdict is demanded.  If the
	// decoder lets it through the ordinary oracle applies.
	malformed bool
	// lenient: a well-formed message that a careful decoder may still refuse (a
	// validator whose address is not that of its public key).  Refusal anywhere is
	// accepted; admission of invalid evidence and panics are not.
	lenient bool
	fs      []func(l *tmproto.LightClientAttackEvidence)
}

func (m *wireMut) apply(pb *tmproto.Evidence) {
	if m == nil || pb == nil {
		return
	}
	l := pb.GetLightClientAttackEvidence()
	if l == nil || l.ConflictingBlock == nil || l.ConflictingBlock.ValidatorSet == nil {
		return
	}
	for _, f := range m.fs {
		f(l)
	}
}

// newWireMut draws a hostile re-encoding for one item.  All values are fixed
// here, so applying the mutation twice (item, then the block that carries the
// decoded item) writes the same bytes.  `insufficient` biases the forged total
// towards values that would turn an under-signed commit into a sufficient one.
func (h *hist) newWireMut(ev *types.LightClientAttackEvidence, insufficient bool) *wireMut {
	vals := ev.ConflictingBlock.ValidatorSet
	n := len(vals.Validators)
	real := sumPower(vals)
	var signed int64 // power that signed for the conflicting block
	for i, s := range ev.ConflictingBlock.Commit.Signatures {
		if s.ForBlock() && i < n {
			signed += vals.Validators[i].VotingPower
		}
	}
	m := &wireMut{}
	add := func(name string, f func(l *tmproto.LightClientAttackEvidence)) {
		if m.name != "" {
			m.name += "+"
		}
		m.name += name
		m.fs = append(m.fs, f)
	}
	setTotal := func(name string, v int64) {
		add("total="+name, func(l *tmproto.LightClientAttackEvidence) { l.ConflictingBlock.ValidatorSet.TotalVotingPower = v })
	}
	pickTotal := func() {
		one := vals.Validators[h.r.Intn(n)].VotingPower
		k := h.r.Intn(12)
		if insufficient {
			k = h.r.Intn(5) // the small ones
		}
		switch k {
		case 0:
			setTotal("1", 1)
		case 1:
			setTotal("one-validator", one)
		case 2:
			setTotal("signed-power", signed) // signed > total*2/3 if this were believed
		case 3:
			setTotal("signed-power-plus-1", signed+1)
		case 4:
			setTotal("half-real", real/2+1)
		case 5:
			setTotal("-1", -1)
		case 6:
			setTotal("minint64", math.MinInt64)
		case 7:
			setTotal("maxint64", math.MaxInt64)
		case 8:
			setTotal("cap-plus-1", types.MaxTotalVotingPower+1)
		case 9:
			setTotal("0", 0)
		case 10:
			setTotal("real-plus-1", real+1)
		default:
			setTotal("3x-real", 3*real)
		}
	}
	pickProposer := func() {
		switch k := h.r.Intn(8); k {
		case 0, 1:
			fixed, err := vals.Validators[h.r.Intn(n)].ToProto() // fixed content, so that re-applying changes nothing
			if err != nil {
				panic(err)
			}
			add("proposer=other-member", func(l *tmproto.LightClientAttackEvidence) {
				cp := *fixed
				l.ConflictingBlock.ValidatorSet.Proposer = &cp
			})
		case 2, 3:
			k := ed25519.GenPrivKeyFromSecret([]byte(fmt.Sprintf("c11-foreign-proposer-%d", h.r.Int63())))
			pk, err := cryptoenc.PubKeyToProto(k.PubKey())
			if err != nil {
				panic(err)
			}
			pw := 1 + h.r.Int63n(1000)
			add("proposer=foreign", func(l *tmproto.LightClientAttackEvidence) {
				l.ConflictingBlock.ValidatorSet.Proposer = &tmproto.Validator{Address: k.PubKey().Address(), PubKey: pk, VotingPower: pw, ProposerPriority: -pw}
			})
		case 4:
			pw := 1 + h.r.Int63n(1<<40) // an absolute value, so that re-applying changes nothing
			add("proposer=power-changed", func(l *tmproto.LightClientAttackEvidence) {
				vs := l.ConflictingBlock.ValidatorSet
				if vs.Proposer != nil {
					cp := *vs.Proposer
					cp.VotingPower = pw
					vs.Proposer = &cp
				}
			})
		case 5:
			m.malformed = true
			add("proposer=nil", func(l *tmproto.LightClientAttackEvidence) { l.ConflictingBlock.ValidatorSet.Proposer = nil })
		case 6:
			m.malformed = true
			add("proposer=short-address", func(l *tmproto.LightClientAttackEvidence) {
				vs := l.ConflictingBlock.ValidatorSet
				if vs.Proposer != nil && len(vs.Proposer.Address) > 5 {
					cp := *vs.Proposer
					cp.Address = cp.Address[:5]
					vs.Proposer = &cp
				}
			})
		default:
			m.malformed = true
			add("proposer=negative-power", func(l *tmproto.LightClientAttackEvidence) {
				vs := l.ConflictingBlock.ValidatorSet
				if vs.Proposer != nil {
					cp := *vs.Proposer
					cp.VotingPower = -5
					vs.Proposer = &cp
				}
			})
		}
	}
	pickPriorities := func() {
		prios := make([]int64, n)
		mode := h.r.Intn(3)
		for i := range prios {
			switch mode {
			case 0:
				prios[i] = h.r.Int63() - h.r.Int63()
			case 1:
				prios[i] = math.MaxInt64
			default:
				prios[i] = math.MinInt64
			}
		}
		add([]string{"priorities=random", "priorities=maxint64", "priorities=minint64"}[mode], func(l *tmproto.LightClientAttackEvidence) {
			for i, v := range l.ConflictingBlock.ValidatorSet.Validators {
				if i < len(prios) && v != nil {
					v.ProposerPriority = prios[i]
				}
			}
		})
	}
	if insufficient || h.r.Intn(5) != 0 {
		pickTotal()
	}
	if h.r.Intn(5) < 2 {
		pickProposer()
	}
	if h.r.Intn(5) < 2 {
		pickPriorities()
	}
	if len(ev.ByzantineValidators) > 0 && h.r.Intn(5) == 0 {
		p := h.r.Int63() - h.r.Int63()
		add("byz-priorities", func(l *tmproto.LightClientAttackEvidence) {
			for _, v := range l.ByzantineValidators {
				if v != nil {
					v.ProposerPriority = p
				}
			}
		})
	}
	if h.r.Intn(7) == 0 {
		// the validators hash covers public key and power only: the address field is the sender's choice
		i := h.r.Intn(n)
		addr := make([]byte, 20)
		h.r.Read(addr)
		m.lenient = true
		add(forgedValsetAddress, func(l *tmproto.LightClientAttackEvidence) {
			vs := l.ConflictingBlock.ValidatorSet
			if i < len(vs.Validators) && vs.Validators[i] != nil {
				vs.Validators[i].Address = addr
			}
		})
	}
	if len(m.fs) == 0 {
		pickTotal()
	}
	return m
}

// maybeWire attaches a hostile encoder to a share of the light-client-attack items.
func (h *hist) maybeWire(ev *types.LightClientAttackEvidence, perturbation string) {
	if ev == nil || ev.ConflictingBlock == nil || ev.ConflictingBlock.ValidatorSet == nil ||
		len(ev.ConflictingBlock.ValidatorSet.Validators) == 0 || ev.ConflictingBlock.Commit == nil {
		return
	}
	insufficient := perturbation == "coalition-below-two-thirds" || perturbation == "trusted-below-one-third"
	share := 40
	if insufficient {
		share = 85
	}
	if h.r.Intn(100) < share {
		h.wire[ev] = h.newWireMut(ev, insufficient && h.r.Intn(4) != 0)
	}
}

// adoptVerdict: the decoded form of an item is judged like the item it encodes.
func (h *hist) adoptVerdict(raw, decoded types.Evidence) {
	r, ok := raw.(*types.LightClientAttackEvidence)
	d, ok2 := decoded.(*types.LightClientAttackEvidence)
	if !ok || !ok2 || r == nil || d == nil {
		return
	}
	if v, found := h.lcaVerdict[bytesKey(r)]; found {
		if _, have := h.lcaVerdict[bytesKey(d)]; !have {
			h.lcaVerdict[bytesKey(d)] = v
		}
	}
}

func (h *hist) countWire(m *wireMut, gerr error) {
	if m == nil {
		return
	}
	res := "decoded"
	if gerr != nil {
		res = "rejected-by-fromproto"
	}
	h.c.Count("wire/"+res, 1)
	for _, part := range strings.Split(m.name, "+") {
		h.c.Count("wire-mutation/"+part+"/"+res, 1)
	}
}

// guard runs a call into the code under test; a panic there on delivered
// evidence is a finding of its own, not a harness failure.
func (h *hist) guard(op string, muts []*wireMut, f func() error) (err error) {
	defer func() {
		if r := recover(); r != nil {
			err = fmt.Errorf("PANIC: %v", r)
			key := "panic-on-delivered-evidence-" + op
			var names []string
			for _, m := range muts {
				if m != nil {
					names = append(names, m.name)
					if strings.Contains(m.name, forgedValsetAddress) {
						key = forgedValsetAddressKey
					}
				}
			}
			var frames []string
			for _, l := range strings.Split(string(debug.Stack()), "\n") {
				if strings.Contains(l, "tendermint/") && !strings.HasPrefix(l, "\t") && len(frames) < 8 {
					if i := strings.IndexByte(l, '('); i > 0 {
						l = l[:i]
					}
					frames = append(frames, l)
				}
			}
			h.violation(key, fmt.Sprintf("%s panicked on evidence delivered over the wire: %v", op, r),
				map[string]interface{}{"wire_mutations": names, "stack": frames})
			h.c.Count("panics_on_delivered_evidence", 1)
		}
	}()
	return f()
}

const (
	forgedValsetAddress    = "valset-address-forged"
	forgedValsetAddressKey = "lca-forged-valset-address-panics"
	misattributed          = "byz-misattributed-by-commit-address"
	misattributedKey       = "lca-equivocation-misattributed-by-commit-sig-address"
)

func (h *hist) anyLenient(list []types.Evidence) bool {
	for _, ev := range list {
		if m := h.wire[ev]; m != nil && m.lenient {
			return true
		}
	}
	return false
}
