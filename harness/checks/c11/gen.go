package c11

import (
	"fmt"
	"strings"
	"time"

	"github.com/tendermint/tendermint/crypto"
	"github.com/tendermint/tendermint/crypto/ed25519"
	tmproto "github.com/tendermint/tendermint/proto/tendermint/types"
	"github.com/tendermint/tendermint/types"
)

// ---------------------------------------------------------------------------
// generators: genuine evidence and single-field perturbations
// ---------------------------------------------------------------------------

func (h *hist) rand32() []byte {
	b := make([]byte, 32)
	h.r.Read(b)
	return b
}

func (h *hist) randBlockID() types.BlockID {
	return types.BlockID{Hash: h.rand32(), PartSetHeader: types.PartSetHeader{Total: uint32(1 + h.r.Intn(5)), Hash: h.rand32()}}
}

func (h *hist) priv(addr []byte) crypto.PrivKey {
	if pv, ok := h.ch.Keys[string(addr)]; ok {
		return pv.PrivKey
	}
	if k, ok := h.phantom[string(addr)]; ok {
		return k
	}
	panic("c11: no private key for " + fmt.Sprintf("%X", addr))
}

func signVote(k crypto.PrivKey, chainID string, v *types.Vote) {
	sig, err := k.Sign(types.VoteSignBytes(chainID, v.ToProto()))
	if err != nil {
		panic(err)
	}
	v.Signature = sig
}

func cpVote(v *types.Vote) *types.Vote {
	c := *v
	c.BlockID.Hash = append([]byte{}, v.BlockID.Hash...)
	c.BlockID.PartSetHeader.Hash = append([]byte{}, v.BlockID.PartSetHeader.Hash...)
	c.ValidatorAddress = append([]byte{}, v.ValidatorAddress...)
	c.Signature = append([]byte{}, v.Signature...)
	return &c
}

func cpDVE(e *types.DuplicateVoteEvidence) *types.DuplicateVoteEvidence {
	c := *e
	c.VoteA, c.VoteB = cpVote(e.VoteA), cpVote(e.VoteB)
	return &c
}

func orderVotes(v1, v2 *types.Vote) (*types.Vote, *types.Vote) {
	if strings.Compare(v1.BlockID.Key(), v2.BlockID.Key()) < 0 {
		return v1, v2
	}
	return v2, v1
}

// pickHeight chooses an evidence height in [first, maxH], biased towards the
// two expiry boundaries of the current state.
func (h *hist) pickHeight(maxH int64) int64 {
	first := h.ch.Opt.InitialHeight
	if maxH < first {
		return first
	}
	st := h.ch.State
	p := st.ConsensusParams.Evidence
	L := st.LastBlockHeight
	clamp := func(x int64) int64 {
		if x < first {
			return first
		}
		if x > maxH {
			return maxH
		}
		return x
	}
	switch c := h.r.Intn(10); {
	case c < 3: // block-age boundary
		return clamp(L - p.MaxAgeNumBlocks - int64(h.r.Intn(4)) + 1)
	case c < 5: // time-age boundary: the newest height older than MaxAgeDuration, +-1
		lo, hi := first, L
		for lo < hi { // largest x with time(L)-time(x) > D  (times increase with height)
			mid := (lo + hi + 1) / 2
			if st.LastBlockTime.Sub(h.ch.Hist[mid].Block.Time) > p.MaxAgeDuration {
				lo = mid
			} else {
				hi = mid - 1
			}
		}
		return clamp(lo + int64(h.r.Intn(3)) - 1)
	case c < 8: // recent
		return clamp(L - int64(h.r.Intn(int(p.MaxAgeNumBlocks)+1)))
	default:
		return first + h.r.Int63n(maxH-first+1)
	}
}

// genVotePair signs two conflicting votes of one validator of the set voting at `height`.
func (h *hist) genVotePair(vals *types.ValidatorSet, height int64, baseTime time.Time) (*types.Vote, *types.Vote, *types.Validator) {
	idx := h.r.Intn(vals.Size())
	val := vals.Validators[idx]
	k := h.priv(val.Address)
	typ := tmproto.PrevoteType
	if h.r.Intn(2) == 0 {
		typ = tmproto.PrecommitType
	}
	round := int32(h.r.Intn(3))
	b1, b2 := h.randBlockID(), h.randBlockID()
	switch h.r.Intn(5) {
	case 0:
		b1 = types.BlockID{} // nil vote versus block vote
	case 1:
		if rec := h.ch.Hist[height]; rec != nil {
			b1 = rec.BlockID // the decided block versus another one
		}
	}
	mk := func(b types.BlockID) *types.Vote {
		v := &types.Vote{Type: typ, Height: height, Round: round, BlockID: b,
			Timestamp:        baseTime.Add(time.Duration(h.r.Intn(5000)) * time.Millisecond).UTC(),
			ValidatorAddress: append([]byte{}, val.Address...), ValidatorIndex: int32(idx)}
		signVote(k, h.ch.ChainID, v)
		return v
	}
	return mk(b1), mk(b2), val
}

// genDVE: genuine duplicate-vote evidence for a decided height.
func (h *hist) genDVE(height int64) *types.DuplicateVoteEvidence {
	rec := h.ch.Hist[height]
	vals := rec.StateBefore.Validators
	v1, v2, val := h.genVotePair(vals, height, rec.Block.Time)
	a, b := orderVotes(v1, v2)
	return &types.DuplicateVoteEvidence{VoteA: a, VoteB: b, TotalVotingPower: sumPower(vals),
		ValidatorPower: val.VotingPower, Timestamp: rec.Block.Time}
}

var dvePerturbations = []string{
	"swap-order", "same-blockid", "voteB-height+1", "voteB-height-1", "voteB-round+1", "voteB-type-flip",
	"voteB-other-validator", "non-validator", "sigA-flip", "sigB-flip", "sigB-by-other-key", "wrong-chainid",
	"valpower+1", "valpower-other-height", "totalpower+1", "totalpower-1", "totalpower-other-height",
	"timestamp+1ns", "timestamp-1s", "timestamp-of-h-1", "timestamp-of-h+1", "vote-timestamp-unsigned",
	"validator-index-changed", "both-heights+1", "future-height", "height-zero", "blockid-incomplete", "sig-empty",
	"sigB-is-sigA",
}

// perturbDVE applies one named perturbation to a copy of a genuine item.  The
// reference predicate, not the name, decides what the verdict must be.
func (h *hist) perturbDVE(base *types.DuplicateVoteEvidence, name string) *types.DuplicateVoteEvidence {
	e := cpDVE(base)
	height := e.VoteA.Height
	rec := h.ch.Hist[height]
	vals := rec.StateBefore.Validators
	k := h.priv(e.VoteA.ValidatorAddress)
	chain := h.ch.ChainID
	resignB := func() { signVote(k, chain, e.VoteB) }
	other := func(d int64) int64 { // a neighbouring decided height
		if h.ch.Hist[height+d] != nil {
			return height + d
		}
		if h.ch.Hist[height-d] != nil {
			return height - d
		}
		return height
	}
	switch name {
	case "swap-order":
		e.VoteA, e.VoteB = e.VoteB, e.VoteA
	case "same-blockid":
		e.VoteB.BlockID = cpVote(e.VoteA).BlockID
		resignB()
	case "voteB-height+1":
		e.VoteB.Height++
		resignB()
	case "voteB-height-1":
		e.VoteB.Height--
		resignB()
	case "voteB-round+1":
		e.VoteB.Round++
		resignB()
	case "voteB-type-flip":
		if e.VoteB.Type == tmproto.PrevoteType {
			e.VoteB.Type = tmproto.PrecommitType
		} else {
			e.VoteB.Type = tmproto.PrevoteType
		}
		resignB()
	case "voteB-other-validator":
		if vals.Size() < 2 {
			return nil
		}
		for i, v := range vals.Validators {
			if string(v.Address) != string(e.VoteA.ValidatorAddress) {
				e.VoteB.ValidatorAddress = append([]byte{}, v.Address...)
				e.VoteB.ValidatorIndex = int32(i)
				signVote(h.priv(v.Address), chain, e.VoteB)
				break
			}
		}
	case "non-validator":
		// a key that exists (maybe a validator at other heights) but does not vote at this height
		var nk crypto.PrivKey
		for _, cand := range h.ch.KeyList {
			if findVal(vals, cand.PubKey().Address()) == nil {
				nk = cand
				break
			}
		}
		if nk == nil {
			nk = ed25519.GenPrivKeyFromSecret([]byte(fmt.Sprintf("c11-outsider-%d", h.idx)))
		}
		for _, v := range []*types.Vote{e.VoteA, e.VoteB} {
			v.ValidatorAddress = nk.PubKey().Address()
			signVote(nk, chain, v)
		}
	case "sigA-flip":
		e.VoteA.Signature[h.r.Intn(len(e.VoteA.Signature))] ^= 1 << uint(h.r.Intn(8))
	case "sigB-flip":
		e.VoteB.Signature[h.r.Intn(len(e.VoteB.Signature))] ^= 1 << uint(h.r.Intn(8))
	case "sigB-is-sigA":
		e.VoteB.Signature = append([]byte{}, e.VoteA.Signature...)
	case "sigB-by-other-key":
		signVote(ed25519.GenPrivKeyFromSecret([]byte("c11-other-key")), chain, e.VoteB)
	case "wrong-chainid":
		signVote(k, chain+"-x", e.VoteA)
		signVote(k, chain+"-x", e.VoteB)
	case "valpower+1":
		e.ValidatorPower++
	case "valpower-other-height":
		// the power the same key has at a different height (differs only under churn)
		for _, d := range []int64{2, 3, 5, 8} {
			for _, hh := range []int64{height + d, height - d} {
				if r2 := h.ch.Hist[hh]; r2 != nil {
					if v := findVal(r2.StateBefore.Validators, e.VoteA.ValidatorAddress); v != nil && v.VotingPower != e.ValidatorPower {
						e.ValidatorPower = v.VotingPower
						return e
					}
				}
			}
		}
		e.ValidatorPower += 2
	case "totalpower+1":
		e.TotalVotingPower++
	case "totalpower-1":
		e.TotalVotingPower--
	case "totalpower-other-height":
		for _, d := range []int64{2, 3, 5, 8} {
			for _, hh := range []int64{height + d, height - d} {
				if r2 := h.ch.Hist[hh]; r2 != nil {
					if t := sumPower(r2.StateBefore.Validators); t != e.TotalVotingPower {
						e.TotalVotingPower = t
						return e
					}
				}
			}
		}
		e.TotalVotingPower += 3
	case "timestamp+1ns":
		e.Timestamp = e.Timestamp.Add(time.Nanosecond)
	case "timestamp-1s":
		e.Timestamp = e.Timestamp.Add(-time.Second)
	case "timestamp-of-h-1":
		if o := other(-1); o != height {
			e.Timestamp = h.ch.Hist[o].Block.Time
		} else {
			e.Timestamp = e.Timestamp.Add(time.Millisecond)
		}
	case "timestamp-of-h+1":
		if o := other(1); o != height {
			e.Timestamp = h.ch.Hist[o].Block.Time
		} else {
			e.Timestamp = e.Timestamp.Add(-time.Millisecond)
		}
	case "vote-timestamp-unsigned":
		e.VoteA.Timestamp = e.VoteA.Timestamp.Add(time.Millisecond)
	case "validator-index-changed":
		// not covered by the signature, not part of the statement: stays valid
		e.VoteA.ValidatorIndex += int32(1 + h.r.Intn(3))
	case "both-heights+1":
		o := other(1)
		e.VoteA.Height, e.VoteB.Height = o, o
		signVote(k, chain, e.VoteA)
		resignB()
	case "future-height":
		f := h.ch.Height() + 1 + int64(h.r.Intn(3))
		e.VoteA.Height, e.VoteB.Height = f, f
		signVote(k, chain, e.VoteA)
		resignB()
	case "height-zero":
		e.VoteA.Height, e.VoteB.Height = 0, 0
		signVote(k, chain, e.VoteA)
		resignB()
	case "blockid-incomplete":
		if len(e.VoteB.BlockID.Hash) == 0 {
			return nil
		}
		e.VoteB.BlockID.PartSetHeader.Total = 0
		resignB()
		e.VoteA, e.VoteB = orderVotes(e.VoteA, e.VoteB)
	case "sig-empty":
		e.VoteB.Signature = nil
	default:
		panic("unknown perturbation " + name)
	}
	return e
}

// ---------------------------------------------------------------------------
// light-client-attack evidence
// ---------------------------------------------------------------------------

type lcaBase struct {
	kind     string // equivocation | amnesia | lunatic | lunatic-phantom
	hc, hx   int64
	common   *types.ValidatorSet
	confVals *types.ValidatorSet
	header   types.Header
	round    int32
	flags    []types.BlockIDFlag
	ev       *types.LightClientAttackEvidence
}

func (h *hist) signCommit(chainID string, vals *types.ValidatorSet, height int64, round int32, bid types.BlockID,
	flags []types.BlockIDFlag, ts time.Time) *types.Commit {
	sigs := make([]types.CommitSig, vals.Size())
	for i, val := range vals.Validators {
		switch flags[i] {
		case types.BlockIDFlagAbsent:
			sigs[i] = types.NewCommitSigAbsent()
		default:
			b := bid
			if flags[i] == types.BlockIDFlagNil {
				b = types.BlockID{}
			}
			v := &types.Vote{Type: tmproto.PrecommitType, Height: height, Round: round, BlockID: b,
				Timestamp: ts.Add(time.Duration(i) * time.Millisecond), ValidatorAddress: val.Address, ValidatorIndex: int32(i)}
			signVote(h.priv(val.Address), chainID, v)
			sigs[i] = v.CommitSig()
		}
	}
	return types.NewCommit(height, round, bid, sigs)
}

// coalition returns flags with for-block power > 2/3 of the set; the rest is
// absent / nil / for-block at random.
func (h *hist) coalition(vals *types.ValidatorSet) []types.BlockIDFlag {
	n := vals.Size()
	flags := make([]types.BlockIDFlag, n)
	total := sumPower(vals)
	var got int64
	for _, i := range h.r.Perm(n) {
		if got*3 <= total*2 {
			flags[i] = types.BlockIDFlagCommit
			got += vals.Validators[i].VotingPower
			continue
		}
		switch h.r.Intn(3) {
		case 0:
			flags[i] = types.BlockIDFlagAbsent
		case 1:
			flags[i] = types.BlockIDFlagNil
		default:
			flags[i] = types.BlockIDFlagCommit
		}
	}
	return flags
}

func forBlockPower(vals *types.ValidatorSet, flags []types.BlockIDFlag) int64 {
	var p int64
	for i, f := range flags {
		if f == types.BlockIDFlagCommit {
			p += vals.Validators[i].VotingPower
		}
	}
	return p
}

func (h *hist) assembleLCA(b *lcaBase, chainID string) *types.LightClientAttackEvidence {
	hdr := b.header
	bid := types.BlockID{Hash: hdr.Hash(), PartSetHeader: types.PartSetHeader{Total: 1, Hash: h.rand32()}}
	commit := h.signCommit(chainID, b.confVals, b.hx, b.round, bid, b.flags, hdr.Time.Add(time.Second))
	canon := h.ch.Hist[b.hx].Commit
	var byz []*types.Validator
	switch b.kind {
	case "equivocation":
		// validators that signed (anything) in both commits of the same round
		for i, f := range b.flags {
			if f != types.BlockIDFlagAbsent && canon.Signatures[i].BlockIDFlag != types.BlockIDFlagAbsent {
				byz = append(byz, b.confVals.Validators[i].Copy())
			}
		}
	case "amnesia":
		// cannot be attributed
	default: // lunatic: validators of the common set that signed the bogus header
		for i, f := range b.flags {
			if f == types.BlockIDFlagCommit {
				if v := findVal(b.common, b.confVals.Validators[i].Address); v != nil {
					byz = append(byz, v.Copy())
				}
			}
		}
	}
	sortByzantine(byz)
	return &types.LightClientAttackEvidence{
		ConflictingBlock: &types.LightBlock{SignedHeader: &types.SignedHeader{Header: &hdr, Commit: commit},
			ValidatorSet: b.confVals.Copy()},
		CommonHeight: b.hc, ByzantineValidators: byz, TotalVotingPower: sumPower(b.common),
		Timestamp: h.ch.Hist[b.hc].Block.Time,
	}
}

// genLCA builds genuine light-client-attack evidence against decided heights
// hc <= hx <= L-1 (the node needs the canonical commit of hx, which is stored
// with block hx+1).
func (h *hist) genLCA() *lcaBase {
	L := h.ch.Height()
	first := h.ch.Opt.InitialHeight
	if L-1 < first+1 {
		return nil
	}
	b := &lcaBase{}
	b.hc = h.pickHeight(L - 1)
	b.hx = b.hc
	switch h.r.Intn(4) {
	case 0:
		b.kind = "equivocation"
	case 1:
		b.kind = "amnesia"
	case 2:
		b.kind = "lunatic"
	default:
		b.kind = "lunatic-phantom"
	}
	if strings.HasPrefix(b.kind, "lunatic") {
		if b.hc >= L-1 {
			b.hc = L - 2
			if b.hc < first {
				return nil
			}
		}
		b.hx = b.hc + 1 + int64(h.r.Intn(3))
		if b.hx > L-1 {
			b.hx = L - 1
		}
	}
	rec := h.ch.Hist[b.hx]
	b.common = h.ch.Hist[b.hc].StateBefore.Validators.Copy()
	b.header = rec.Block.Header // value copy; byte slices are replaced, never edited in place
	canon := rec.Commit
	switch b.kind {
	case "equivocation", "amnesia":
		b.confVals = rec.StateBefore.Validators.Copy()
		if h.r.Intn(2) == 0 {
			b.header.DataHash = h.rand32()
		} else {
			b.header.Time = b.header.Time.Add(time.Duration(1+h.r.Intn(900)) * time.Millisecond)
		}
		b.round = canon.Round
		if b.kind == "amnesia" {
			b.round = canon.Round + 1 + int32(h.r.Intn(2))
		}
		b.flags = h.coalition(b.confVals)
	case "lunatic":
		b.confVals = rec.StateBefore.Validators.Copy()
		switch h.r.Intn(3) {
		case 0:
			b.header.AppHash = h.rand32()
		case 1:
			b.header.LastResultsHash = h.rand32()
		default:
			b.header.ConsensusHash = h.rand32()
		}
		b.round = int32(h.r.Intn(2))
		b.flags = h.coalition(b.confVals)
	case "lunatic-phantom":
		// a subset of the common set with > 1/3 of its power, plus invented validators
		var byz []*types.Validator
		var got int64
		total := sumPower(b.common)
		for _, i := range h.r.Perm(b.common.Size()) {
			v := b.common.Validators[i]
			byz = append(byz, types.NewValidator(v.PubKey, v.VotingPower))
			got += v.VotingPower
			if got*3 > total && h.r.Intn(2) == 0 {
				break
			}
		}
		np := h.r.Intn(3)
		for i := 0; i < np; i++ {
			k := ed25519.GenPrivKeyFromSecret([]byte(fmt.Sprintf("c11-phantom-%d-%d", h.idx, len(h.phantom))))
			h.phantom[string(k.PubKey().Address())] = k
			byz = append(byz, types.NewValidator(k.PubKey(), 1+h.r.Int63n(got/2+1)))
		}
		b.confVals = types.NewValidatorSet(byz)
		b.header.ValidatorsHash = b.confVals.Hash()
		b.header.AppHash = h.rand32()
		b.round = 0
		b.flags = make([]types.BlockIDFlag, b.confVals.Size())
		for i := range b.flags {
			b.flags[i] = types.BlockIDFlagCommit
		}
	}
	// preconditions of a genuine attack, tallied here
	if forBlockPower(b.confVals, b.flags)*3 <= sumPower(b.confVals)*2 {
		return nil
	}
	if strings.HasPrefix(b.kind, "lunatic") {
		var trusted int64
		for i, f := range b.flags {
			if f == types.BlockIDFlagCommit {
				if v := findVal(b.common, b.confVals.Validators[i].Address); v != nil {
					trusted += v.VotingPower
				}
			}
		}
		if trusted*3 <= sumPower(b.common) {
			// not enough of the common set took part: make everybody sign, else give up
			for i := range b.flags {
				b.flags[i] = types.BlockIDFlagCommit
			}
			trusted = 0
			for _, cv := range b.confVals.Validators {
				if v := findVal(b.common, cv.Address); v != nil {
					trusted += v.VotingPower
				}
			}
			if trusted*3 <= sumPower(b.common) {
				return nil
			}
		}
	}
	b.ev = h.assembleLCA(b, h.ch.ChainID)
	return b
}

var lcaPerturbations = []string{
	"timestamp+1ns", "timestamp-1s", "totalpower+1", "totalpower-1", "byz-drop-last", "byz-add-extra", "byz-power+1", "byz-swap",
	"all-sigs-corrupted", "conflicting-is-canonical", "coalition-below-two-thirds", "header-changed-after-signing",
	"wrong-chainid", "same-height-invalid-header", "common-height-1", "trusted-below-one-third",
	misattributed,
}

// pickLCAPerturbation: uniform, except that the two under-signed shapes (less
// than 2/3 of the conflicting set, less than 1/3 of the common set) get a
// third of the draws: they are the ones a forged total voting power could turn
// into admissible evidence.
func (h *hist) pickLCAPerturbation() string {
	if h.r.Intn(3) == 0 {
		return []string{"coalition-below-two-thirds", "trusted-below-one-third"}[h.r.Intn(2)]
	}
	return lcaPerturbations[h.r.Intn(len(lcaPerturbations))]
}

func (h *hist) cloneLCA(e *types.LightClientAttackEvidence) *types.LightClientAttackEvidence {
	w, err := gate(e)
	if err != nil {
		panic("c11: cannot clone genuine LCA evidence: " + err.Error())
	}
	return w.(*types.LightClientAttackEvidence)
}

// perturbLCA: each of these always invalidates (nil when not applicable).
func (h *hist) perturbLCA(b *lcaBase, name string) *types.LightClientAttackEvidence {
	e := h.cloneLCA(b.ev)
	switch name {
	case "timestamp+1ns":
		e.Timestamp = e.Timestamp.Add(time.Nanosecond)
	case "timestamp-1s":
		e.Timestamp = e.Timestamp.Add(-time.Second)
	case "totalpower+1":
		e.TotalVotingPower++
	case "totalpower-1":
		if e.TotalVotingPower <= 1 {
			return nil
		}
		e.TotalVotingPower--
	case "byz-drop-last":
		if len(e.ByzantineValidators) == 0 {
			return nil
		}
		e.ByzantineValidators = e.ByzantineValidators[:len(e.ByzantineValidators)-1]
	case "byz-add-extra":
		k := ed25519.GenPrivKeyFromSecret([]byte("c11-innocent"))
		e.ByzantineValidators = append(e.ByzantineValidators, types.NewValidator(k.PubKey(), 1))
	case "byz-power+1":
		if len(e.ByzantineValidators) == 0 {
			return nil
		}
		e.ByzantineValidators[h.r.Intn(len(e.ByzantineValidators))].VotingPower++
	case "byz-swap":
		if len(e.ByzantineValidators) < 2 {
			return nil
		}
		e.ByzantineValidators[0], e.ByzantineValidators[1] = e.ByzantineValidators[1], e.ByzantineValidators[0]
	case "all-sigs-corrupted":
		for i := range e.ConflictingBlock.Commit.Signatures {
			s := &e.ConflictingBlock.Commit.Signatures[i]
			if len(s.Signature) > 0 {
				s.Signature[h.r.Intn(len(s.Signature))] ^= 0x40
			}
		}
	case "conflicting-is-canonical":
		lb := h.ch.LightBlock(b.hx)
		e.ConflictingBlock = h.cloneLCA(&types.LightClientAttackEvidence{ConflictingBlock: lb, CommonHeight: b.hc,
			TotalVotingPower: e.TotalVotingPower, Timestamp: e.Timestamp}).ConflictingBlock
	case "coalition-below-two-thirds":
		if b.kind == "lunatic-phantom" && b.confVals.Size() < 2 {
			return nil
		}
		nb := *b
		nb.flags = append([]types.BlockIDFlag{}, b.flags...)
		total := sumPower(nb.confVals)
		for _, i := range h.r.Perm(len(nb.flags)) {
			if forBlockPower(nb.confVals, nb.flags)*3 <= total*2 {
				break
			}
			nb.flags[i] = types.BlockIDFlagAbsent
		}
		e = h.assembleLCA(&nb, h.ch.ChainID)
	case "header-changed-after-signing":
		e.ConflictingBlock.Header.AppHash = h.rand32()
	case "wrong-chainid":
		nb := *b
		nb.header.ChainID = h.ch.ChainID + "-x"
		e = h.assembleLCA(&nb, nb.header.ChainID)
	case "same-height-invalid-header":
		if b.hc != b.hx {
			return nil
		}
		nb := *b
		nb.header.AppHash = h.rand32()
		e = h.assembleLCA(&nb, h.ch.ChainID)
	case "trusted-below-one-third":
		// a lunatic block fully signed by its own (mostly invented) validator set, in
		// which validators of the common set hold at most 1/3 of the common power
		if b.hc == b.hx {
			return nil
		}
		nb := *b
		nb.kind = "lunatic-phantom"
		var members []*types.Validator
		var got int64
		total := sumPower(b.common)
		for _, i := range h.r.Perm(b.common.Size()) {
			v := b.common.Validators[i]
			if (got+v.VotingPower)*3 <= total && h.r.Intn(3) != 0 {
				members = append(members, types.NewValidator(v.PubKey, v.VotingPower))
				got += v.VotingPower
			}
		}
		np := 1 + h.r.Intn(3)
		for i := 0; i < np; i++ {
			k := ed25519.GenPrivKeyFromSecret([]byte(fmt.Sprintf("c11-phantom-%d-%d", h.idx, len(h.phantom))))
			h.phantom[string(k.PubKey().Address())] = k
			members = append(members, types.NewValidator(k.PubKey(), 1+h.r.Int63n(total+1)))
		}
		nb.confVals = types.NewValidatorSet(members)
		nb.header.ValidatorsHash = nb.confVals.Hash()
		nb.header.AppHash = h.rand32()
		nb.flags = make([]types.BlockIDFlag, nb.confVals.Size())
		for i := range nb.flags {
			nb.flags[i] = types.BlockIDFlagCommit
		}
		e = h.assembleLCA(&nb, h.ch.ChainID)
	case misattributed:
		// Equivocation evidence in which the address of one commit signature is
		// rewritten to that of a validator who did NOT sign the conflicting block,
		// and the ByzantineValidators list names that validator instead of the real
		// double signer.  Signatures are checked by position, addresses are signed
		// by nobody: the evidence claims a misbehaviour it does not prove.
		if b.kind != "equivocation" {
			return nil
		}
		canon := h.ch.Hist[b.hx].Commit
		vals := e.ConflictingBlock.ValidatorSet
		i, j := -1, -1
		for _, k := range h.r.Perm(len(b.flags)) {
			if b.flags[k] != types.BlockIDFlagAbsent && !canon.Signatures[k].Absent() && i < 0 {
				i = k
			}
			if b.flags[k] == types.BlockIDFlagAbsent && j < 0 {
				j = k
			}
		}
		if i < 0 || j < 0 {
			return nil
		}
		e.ConflictingBlock.Commit.Signatures[i].ValidatorAddress = append([]byte{}, vals.Validators[j].Address...)
		var byz []*types.Validator
		for _, v := range e.ByzantineValidators {
			if string(v.Address) != string(vals.Validators[i].Address) {
				byz = append(byz, v)
			}
		}
		byz = append(byz, vals.Validators[j].Copy())
		sortByzantine(byz)
		e.ByzantineValidators = byz
	case "common-height-1":
		if h.ch.Hist[b.hc-1] == nil {
			return nil
		}
		e.CommonHeight = b.hc - 1
	default:
		panic("unknown lca perturbation " + name)
	}
	return e
}

// genForwardLunatic: a bogus header for a height the chain has not reached,
// whose time is not after the latest block (so it breaks monotonic time),
// signed by the validators of the latest height.  Observation only: the pool
// needs the canonical commit of its latest block to judge it, which a block
// store only has once the next block is saved.
func (h *hist) genForwardLunatic() *types.LightClientAttackEvidence {
	L := h.ch.Height()
	if L-1 < h.ch.Opt.InitialHeight {
		return nil
	}
	b := &lcaBase{kind: "lunatic", hc: L - 1, hx: L}
	rec := h.ch.Hist[L]
	b.common = h.ch.Hist[b.hc].StateBefore.Validators.Copy()
	b.confVals = rec.StateBefore.Validators.Copy()
	b.header = rec.Block.Header
	b.header.Height = L + 1 + int64(h.r.Intn(5))
	b.header.Time = rec.Block.Time.Add(-time.Duration(h.r.Intn(1000)) * time.Millisecond)
	b.header.AppHash = h.rand32()
	b.flags = make([]types.BlockIDFlag, b.confVals.Size())
	for i := range b.flags {
		b.flags[i] = types.BlockIDFlagCommit
	}
	var trusted int64
	for _, cv := range b.confVals.Validators {
		if v := findVal(b.common, cv.Address); v != nil {
			trusted += v.VotingPower
		}
	}
	if trusted*3 <= sumPower(b.common) {
		return nil
	}
	// assembleLCA signs at b.hx and reads the canonical commit of b.hx only for equivocation
	hx := b.header.Height
	hdr := b.header
	bid := types.BlockID{Hash: hdr.Hash(), PartSetHeader: types.PartSetHeader{Total: 1, Hash: h.rand32()}}
	commit := h.signCommit(h.ch.ChainID, b.confVals, hx, 0, bid, b.flags, hdr.Time.Add(time.Second))
	var byz []*types.Validator
	for _, cv := range b.confVals.Validators {
		if v := findVal(b.common, cv.Address); v != nil {
			byz = append(byz, v.Copy())
		}
	}
	sortByzantine(byz)
	return &types.LightClientAttackEvidence{
		ConflictingBlock: &types.LightBlock{SignedHeader: &types.SignedHeader{Header: &hdr, Commit: commit}, ValidatorSet: b.confVals.Copy()},
		CommonHeight:     b.hc, ByzantineValidators: byz, TotalVotingPower: sumPower(b.common), Timestamp: h.ch.Hist[b.hc].Block.Time,
	}
}
