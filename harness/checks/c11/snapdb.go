package c11

import (
	"bytes"
	"errors"
	"sort"
	"sync"

	dbm "github.com/tendermint/tm-db"
)

// snapDB is the evidence DB of a history: an in-memory key/value store whose
// iterators run over a snapshot, as goleveldb's (the production backend) do.
// tm-db's MemDB cannot be used here: its iterator goroutine holds the DB's
// read lock while more than 64 items are still to be delivered, and the pool
// deletes inside its pruning iteration (removeExpiredPendingEvidence), which
// then blocks forever once more than ~65 items are pending.  That is a
// property of MemDB, not of the pool on a real backend.
type snapDB struct {
	mu sync.Mutex
	m  map[string][]byte
}

func newSnapDB() *snapDB { return &snapDB{m: map[string][]byte{}} }

var errEmptyKey = errors.New("key cannot be empty")
var errNilValue = errors.New("value cannot be nil")

func (d *snapDB) Get(k []byte) ([]byte, error) {
	if len(k) == 0 {
		return nil, errEmptyKey
	}
	d.mu.Lock()
	defer d.mu.Unlock()
	v, ok := d.m[string(k)]
	if !ok {
		return nil, nil
	}
	return append([]byte{}, v...), nil
}

func (d *snapDB) Has(k []byte) (bool, error) {
	if len(k) == 0 {
		return false, errEmptyKey
	}
	d.mu.Lock()
	defer d.mu.Unlock()
	_, ok := d.m[string(k)]
	return ok, nil
}

func (d *snapDB) Set(k, v []byte) error {
	if len(k) == 0 {
		return errEmptyKey
	}
	if v == nil {
		return errNilValue
	}
	d.mu.Lock()
	defer d.mu.Unlock()
	d.m[string(k)] = append([]byte{}, v...)
	return nil
}

func (d *snapDB) SetSync(k, v []byte) error { return d.Set(k, v) }

func (d *snapDB) Delete(k []byte) error {
	if len(k) == 0 {
		return errEmptyKey
	}
	d.mu.Lock()
	defer d.mu.Unlock()
	delete(d.m, string(k))
	return nil
}

func (d *snapDB) DeleteSync(k []byte) error { return d.Delete(k) }
func (d *snapDB) Close() error              { return nil }
func (d *snapDB) Print() error              { return nil }
func (d *snapDB) Stats() map[string]string  { return map[string]string{} }

type snapIter struct {
	start, end []byte
	keys       [][]byte
	vals       [][]byte
	i          int
}

func (d *snapDB) iter(start, end []byte, reverse bool) (dbm.Iterator, error) {
	if (start != nil && len(start) == 0) || (end != nil && len(end) == 0) {
		return nil, errEmptyKey
	}
	d.mu.Lock()
	defer d.mu.Unlock()
	it := &snapIter{start: start, end: end}
	for k := range d.m {
		kb := []byte(k)
		if start != nil && bytes.Compare(kb, start) < 0 {
			continue
		}
		if end != nil && bytes.Compare(kb, end) >= 0 {
			continue
		}
		it.keys = append(it.keys, kb)
	}
	sort.Slice(it.keys, func(a, b int) bool {
		if reverse {
			return bytes.Compare(it.keys[a], it.keys[b]) > 0
		}
		return bytes.Compare(it.keys[a], it.keys[b]) < 0
	})
	it.vals = make([][]byte, len(it.keys))
	for i, k := range it.keys {
		it.vals[i] = append([]byte{}, d.m[string(k)]...)
	}
	return it, nil
}

func (d *snapDB) Iterator(start, end []byte) (dbm.Iterator, error) { return d.iter(start, end, false) }
func (d *snapDB) ReverseIterator(start, end []byte) (dbm.Iterator, error) {
	return d.iter(start, end, true)
}

func (it *snapIter) Domain() ([]byte, []byte) { return it.start, it.end }
func (it *snapIter) Valid() bool              { return it.i < len(it.keys) }
func (it *snapIter) Next()                    { it.i++ }
func (it *snapIter) Key() []byte              { return it.keys[it.i] }
func (it *snapIter) Value() []byte            { return it.vals[it.i] }
func (it *snapIter) Error() error             { return nil }
func (it *snapIter) Close() error             { return nil }

type snapBatch struct {
	d   *snapDB
	ops []func() error
}

func (d *snapDB) NewBatch() dbm.Batch { return &snapBatch{d: d} }
func (b *snapBatch) Set(k, v []byte) error {
	k, v = append([]byte{}, k...), append([]byte{}, v...)
	b.ops = append(b.ops, func() error { return b.d.Set(k, v) })
	return nil
}
func (b *snapBatch) Delete(k []byte) error {
	k = append([]byte{}, k...)
	b.ops = append(b.ops, func() error { return b.d.Delete(k) })
	return nil
}
func (b *snapBatch) Write() error {
	for _, op := range b.ops {
		if err := op(); err != nil {
			return err
		}
	}
	b.ops = nil
	return nil
}
func (b *snapBatch) WriteSync() error { return b.Write() }
func (b *snapBatch) Close() error     { b.ops = nil; return nil }
