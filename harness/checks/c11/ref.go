package c11

import (
	"bytes"
	"sort"
	"strings"

	"github.com/tendermint/tendermint/crypto/tmhash"
	tmproto "github.com/tendermint/tendermint/proto/tendermint/types"
	"github.com/tendermint/tendermint/types"
)

// ---------------------------------------------------------------------------
// Reference predicates, written from the property statement (DESIGN.md C11).
// They read the generated chain history (chaingen.Chain.Hist: header time and
// validator set of every height) and use only ed25519 verification, the vote
// sign-bytes encoding and plain data accessors of package types.
// ---------------------------------------------------------------------------

func sumPower(vals *types.ValidatorSet) int64 {
	var t int64
	for _, v := range vals.Validators {
		t += v.VotingPower
	}
	return t
}

func findVal(vals *types.ValidatorSet, addr []byte) *types.Validator {
	for _, v := range vals.Validators {
		if bytes.Equal(v.Address, addr) {
			return v
		}
	}
	return nil
}

func blockIDWellFormed(b types.BlockID) bool {
	zero := len(b.Hash) == 0 && b.PartSetHeader.Total == 0 && len(b.PartSetHeader.Hash) == 0
	complete := len(b.Hash) == tmhash.Size && b.PartSetHeader.Total > 0 && len(b.PartSetHeader.Hash) == tmhash.Size
	return zero || complete
}

func blockIDEqual(a, b types.BlockID) bool {
	return bytes.Equal(a.Hash, b.Hash) && a.PartSetHeader.Total == b.PartSetHeader.Total &&
		bytes.Equal(a.PartSetHeader.Hash, b.PartSetHeader.Hash)
}

func voteWellFormed(v *types.Vote) bool {
	if v == nil {
		return false
	}
	if v.Type != tmproto.PrevoteType && v.Type != tmproto.PrecommitType {
		return false
	}
	if v.Height < 0 || v.Round < 0 || v.ValidatorIndex < 0 {
		return false
	}
	if !blockIDWellFormed(v.BlockID) {
		return false
	}
	if len(v.ValidatorAddress) != 20 {
		return false
	}
	if len(v.Signature) == 0 || len(v.Signature) > 64 {
		return false
	}
	return true
}

// refDVE is the structural part of the duplicate-vote predicate (everything
// except freshness and novelty).  The returned reason names the first clause
// that fails.
func (h *hist) refDVE(e *types.DuplicateVoteEvidence) (bool, string) {
	if e == nil || e.VoteA == nil || e.VoteB == nil {
		return false, "nil"
	}
	a, b := e.VoteA, e.VoteB
	if !voteWellFormed(a) || !voteWellFormed(b) {
		return false, "malformed-vote"
	}
	if !bytes.Equal(a.ValidatorAddress, b.ValidatorAddress) {
		return false, "different-validators"
	}
	if a.Height != b.Height || a.Round != b.Round || a.Type != b.Type {
		return false, "hrs-differ"
	}
	if blockIDEqual(a.BlockID, b.BlockID) {
		return false, "same-blockid"
	}
	if strings.Compare(a.BlockID.Key(), b.BlockID.Key()) >= 0 {
		return false, "vote-order"
	}
	rec := h.ch.Hist[a.Height]
	if rec == nil {
		return false, "no-block-at-height"
	}
	vals := rec.StateBefore.Validators // the set that votes at this height
	val := findVal(vals, a.ValidatorAddress)
	if val == nil {
		return false, "not-a-validator-at-height"
	}
	if !val.PubKey.VerifySignature(types.VoteSignBytes(h.ch.ChainID, a.ToProto()), a.Signature) {
		return false, "sigA"
	}
	if !val.PubKey.VerifySignature(types.VoteSignBytes(h.ch.ChainID, b.ToProto()), b.Signature) {
		return false, "sigB"
	}
	if e.ValidatorPower != val.VotingPower {
		return false, "validator-power"
	}
	if e.TotalVotingPower != sumPower(vals) {
		return false, "total-power"
	}
	if !e.Timestamp.Equal(rec.Block.Time) {
		return false, "timestamp"
	}
	return true, ""
}

// expired: by BOTH limits, relative to the state the pool was last updated with.
func (h *hist) expired(evHeight int64) bool {
	rec := h.ch.Hist[evHeight]
	if rec == nil {
		return false
	}
	st := h.ch.State
	p := st.ConsensusParams.Evidence
	ageBlocks := st.LastBlockHeight - evHeight
	ageTime := st.LastBlockTime.Sub(rec.Block.Time)
	return ageBlocks > p.MaxAgeNumBlocks && ageTime > p.MaxAgeDuration
}

func bytesKey(ev types.Evidence) string { return string(tmhash.Sum(ev.Bytes())) }
func hashKey(ev types.Evidence) string  { return string(ev.Hash()) }

// structOK: does the evidence prove what it claims against the validator set
// and block time of its height?  For light-client-attack evidence there is no
// general predicate: the verdict is the one fixed at generation time
// (generated-genuine / curated always-invalidating perturbation).
func (h *hist) structOK(ev types.Evidence) (ok bool, why string, known bool) {
	switch e := ev.(type) {
	case *types.DuplicateVoteEvidence:
		// The verdict on an item whose height is decided never changes (the
		// history is immutable), so the oracle remembers it by the item's bytes.
		decided := e != nil && e.VoteA != nil && e.VoteB != nil && h.ch.Hist[e.VoteA.Height] != nil
		var bk string
		if decided {
			bk = bytesKey(e)
			if m, hit := h.dveMemo[bk]; hit {
				return m.ok, m.name, true
			}
		}
		ok, why = h.refDVE(e)
		if decided {
			h.dveMemo[bk] = lcaInfo{ok, why}
		}
		return ok, why, true
	case *types.LightClientAttackEvidence:
		v, found := h.lcaVerdict[bytesKey(e)]
		if !found {
			return false, "unknown-lca", false
		}
		return v.ok, v.name, true
	}
	return false, "unknown-type", false
}

// sortByzantine orders validators by power (descending) then address (ascending).
func sortByzantine(vs []*types.Validator) {
	sort.SliceStable(vs, func(i, j int) bool {
		if vs[i].VotingPower != vs[j].VotingPower {
			return vs[i].VotingPower > vs[j].VotingPower
		}
		return bytes.Compare(vs[i].Address, vs[j].Address) < 0
	})
}
