// Package c11: evidence is admitted exactly when valid, fresh and new, and is
// used once (DESIGN.md section 3 "C11", section 4 row S11).
//
// Each case is one history: a chaingen chain of 50-300 heights with validator
// churn whose BlockExecutor updates a REAL evidence.Pool at every height.
// Between heights the history interleaves AddEvidence / CheckEvidence /
// ValidateBlock / ReportConflictingVotes / PendingEvidence / restarts with
// genuine and perturbed duplicate-vote and light-client-attack evidence,
// offered the way a peer or a block delivers it (protobuf round trip,
// ValidateBasic, then the pool).  The monitor compares every verdict with the
// reference predicate (ref.go) and, after every operation, the observed pending
// set and Size() with a pending/committed set model.
package c11

import (
	"fmt"
	"math/rand"
	"sort"
	"strings"
	"time"

	dbm "github.com/tendermint/tm-db"

	"github.com/tendermint/tendermint/crypto"
	"github.com/tendermint/tendermint/evidence"
	tmjson "github.com/tendermint/tendermint/libs/json"
	tmproto "github.com/tendermint/tendermint/proto/tendermint/types"
	sm "github.com/tendermint/tendermint/state"
	"github.com/tendermint/tendermint/types"

	"verif/chaingen"
	"verif/verdict"
)

// poolProxy lets the history swap the pool under the BlockExecutor (restart).
type poolProxy struct{ p *evidence.Pool }

func (x *poolProxy) PendingEvidence(m int64) ([]types.Evidence, int64) { return x.p.PendingEvidence(m) }
func (x *poolProxy) AddEvidence(ev types.Evidence) error               { return x.p.AddEvidence(ev) }
func (x *poolProxy) Update(s sm.State, l types.EvidenceList)           { x.p.Update(s, l) }
func (x *poolProxy) CheckEvidence(l types.EvidenceList) error          { return x.p.CheckEvidence(l) }

type lcaInfo struct {
	ok   bool
	name string
}

type bufItem struct {
	a, b   *types.Vote
	height int64
	deep   bool   // examine the item the pool forms from it (consensus.go)
	tag    string // shape / arrival order / vote type
}

type hist struct {
	c    *verdict.Ctx
	idx  int
	r    *rand.Rand
	ch   *chaingen.Chain
	evDB dbm.DB
	px   *poolProxy
	desc map[string]interface{}

	phantom    map[string]crypto.PrivKey
	lcaVerdict map[string]lcaInfo          // by hash of the evidence bytes
	wire       map[types.Evidence]*wireMut // hostile encoder attached to an item (wire.go)
	dveMemo    map[string]lcaInfo          // reference verdicts already computed (decided heights only)

	// model
	committed   map[string]int64  // evidence hash -> height of the block that carried it
	prev        map[string]string // observed pending set after the previous operation: hash -> bytes key
	prevItems   map[string]types.Evidence
	prevHeights map[string]int64
	buffer      []bufItem // conflicting votes reported, not yet flushed by an Update
	drift       int64     // Size() - |pending| after the previous operation

	// material for later operations
	validSeen     []types.Evidence // genuine items generated so far (wire form)
	committedList []types.Evidence
	rejected      []types.Evidence // items the reference rejected (wire form)

	fol *follower // the node that only ever applies blocks (follower.go)

	deepSigs    map[string]string // signatures of pairs under examination -> tag
	forceCommit []types.Evidence  // items formed from reported votes, to be committed next

	log  []string
	cur  string // the operation in progress (for witnesses)
	dead bool

	churnPct int
	paramAt  int64 // height of the block carrying an evidence-parameter change (0 = none)
	paramAge int64

	// per-history summary
	nAdmit, nReject, nCommitted, nExpiredPruned, nRestart, nBuffered int
}

func (h *hist) pool() *evidence.Pool { return h.px.p }

func (h *hist) logf(format string, a ...interface{}) {
	h.log = append(h.log, fmt.Sprintf("h%d ", h.ch.Height())+fmt.Sprintf(format, a...))
}

func (h *hist) witness(extra map[string]interface{}) map[string]interface{} {
	w := map[string]interface{}{"stream": "hist", "index": h.idx, "seed": h.c.Seed, "history": h.desc}
	n := len(h.log)
	from := 0
	if n > 60 {
		from = n - 60
	}
	w["ops_tail"] = h.log[from:]
	w["op_in_progress"] = h.cur
	w["ops_total"] = n
	for k, v := range extra {
		w[k] = v
	}
	return w
}

// violation reports and, unless the finding is a known one, stops the history.
func (h *hist) violation(key, what string, extra map[string]interface{}) {
	if h.c.Violation(key, what, h.witness(extra)) {
		h.dead = true
	}
}

// gate: the way a peer or a block delivers evidence.
func gate(ev types.Evidence) (types.Evidence, error) { return gateWith(ev, nil) }

// gateWith: as gate, with the sender rewriting uncovered fields of the message.
func gateWith(ev types.Evidence, m *wireMut) (out types.Evidence, err error) {
	defer func() {
		if r := recover(); r != nil {
			out, err = nil, fmt.Errorf("panic in protobuf round trip: %v", r)
		}
	}()
	pb, err := types.EvidenceToProto(ev)
	if err != nil {
		return nil, err
	}
	m.apply(pb)
	bz, err := pb.Marshal()
	if err != nil {
		return nil, err
	}
	var pb2 tmproto.Evidence
	if err := pb2.Unmarshal(bz); err != nil {
		return nil, err
	}
	out, err = types.EvidenceFromProto(&pb2)
	if err != nil {
		return nil, err
	}
	if err := out.ValidateBasic(); err != nil {
		return nil, err
	}
	return out, nil
}

func evDesc(ev types.Evidence) string {
	switch e := ev.(type) {
	case *types.DuplicateVoteEvidence:
		return fmt.Sprintf("DVE{h=%d r=%d t=%d val=%X idx=%d/%d A=%X B=%X vp=%d tp=%d ts=%s sigA=%X sigB=%X hash=%X}",
			e.VoteA.Height, e.VoteA.Round, e.VoteA.Type, e.VoteA.ValidatorAddress, e.VoteA.ValidatorIndex, e.VoteB.ValidatorIndex,
			short(e.VoteA.BlockID.Hash), short(e.VoteB.BlockID.Hash), e.ValidatorPower, e.TotalVotingPower,
			e.Timestamp.UTC().Format(time.RFC3339Nano), short(e.VoteA.Signature), short(e.VoteB.Signature), short(e.Hash()))
	case *types.LightClientAttackEvidence:
		return fmt.Sprintf("LCA{common=%d conflicting=%d round=%d byz=%d tp=%d ts=%s hash=%X}",
			e.CommonHeight, e.ConflictingBlock.Height, e.ConflictingBlock.Commit.Round, len(e.ByzantineValidators),
			e.TotalVotingPower, e.Timestamp.UTC().Format(time.RFC3339Nano), short(e.Hash()))
	}
	return fmt.Sprintf("%T", ev)
}

func short(b []byte) []byte {
	if len(b) > 6 {
		return b[:6]
	}
	return b
}

// ---------------------------------------------------------------------------
// observation after every operation
// ---------------------------------------------------------------------------

type obs struct {
	set      map[string]string // hash -> bytes key
	items    map[string]types.Evidence
	size     int64
	reported map[string]bool // items already reported by observe as invalid / committed
}

func (h *hist) dbPendingCount() int {
	it, err := dbm.IteratePrefix(h.evDB, []byte{0x01})
	if err != nil {
		return -1
	}
	defer it.Close()
	n := 0
	for ; it.Valid(); it.Next() {
		n++
	}
	return n
}

// observe reads Size(), PendingEvidence(unbounded) and the pending key space,
// checks the state invariants of the statement and returns the pending set.
// `op` names the operation just performed, s11 is the number of re-counts the
// known S11 defect would explain for it.
func (h *hist) observe(op string, s11 int64, afterRestart bool) *obs {
	p := h.pool()
	o := &obs{set: map[string]string{}, items: map[string]types.Evidence{}, reported: map[string]bool{}}
	o.size = int64(p.Size())
	list, _ := p.PendingEvidence(-1)
	if h.r.Intn(2) == 0 {
		list, _ = p.PendingEvidence(1 << 40)
	}
	for _, ev := range list {
		k := hashKey(ev)
		if _, dup := o.set[k]; dup {
			h.violation("pending-lists-item-twice", "PendingEvidence returned the same evidence twice after "+op,
				map[string]interface{}{"evidence": evDesc(ev)})
		}
		o.set[k] = bytesKey(ev)
		o.items[k] = ev
	}
	if n := h.dbPendingCount(); n != len(o.set) {
		if total, bad := h.scanPendingRecords(); len(bad) > 0 {
			h.violation(keyUnlistable, fmt.Sprintf("after %s: %d of %d pending records cannot be decoded as evidence, PendingEvidence lists %d items, Size()=%d", op, len(bad), total, len(o.set), o.size),
				map[string]interface{}{"undecodable_records": bad})
			// what a restart makes of the same key space
			if _, err := evidence.NewPool(h.evDB, h.ch.StateStore, h.ch.BlockStore); err != nil {
				h.violation(keyRestartFails, fmt.Sprintf("the pool cannot be re-created on its own evidence DB: %v", firstErr(err)),
					map[string]interface{}{"undecodable_records": bad})
			}
			h.dead = true // the pending set can no longer be observed; nothing further is judged in this history
			return o
		}
		h.violation("pendingevidence-differs-from-store", fmt.Sprintf("after %s: PendingEvidence(unbounded) lists %d items, the pending key space holds %d (Size()=%d)", op, len(o.set), n, o.size), nil)
	}
	// Size() == |pending|, judged as a change of the difference so that one defect is reported where it happens
	d := o.size - int64(len(o.set))
	base := h.drift
	if afterRestart {
		base = 0
	}
	if d != base {
		key := "size-drift-" + op
		if s11 > 0 && d-base == s11 {
			key = "checkevidence-lca-recount"
		}
		h.violation(key, fmt.Sprintf("Size() - |pending| changed from %d to %d during %s (Size()=%d, pending=%d)", base, d, op, o.size, len(o.set)),
			map[string]interface{}{"size": o.size, "pending": len(o.set), "drift_before": base, "drift_after": d})
		h.c.Count("size_drift_events", 1)
	}
	h.drift = d
	h.c.Max("max_pending_items_seen", int64(len(o.set)))
	// every pending item proves what it claims and was never committed
	for k, ev := range o.items {
		if ch, was := h.committed[k]; was {
			h.violation("pending-contains-committed-"+op, fmt.Sprintf("after %s an item committed in block %d is pending", op, ch),
				map[string]interface{}{"evidence": evDesc(ev)})
		}
		if _, old := h.prev[k]; old && h.prev[k] == o.set[k] {
			continue // judged when it entered
		}
		ok, why, known := h.structOK(ev)
		if !known {
			h.c.HarnessError("C11 hist %d: pending item of unknown provenance after %s: %s", h.idx, op, evDesc(ev))
			h.dead = true
		} else if !ok {
			o.reported[k] = true
			key := "pending-contains-invalid-" + op
			if why == misattributed {
				key = misattributedKey
			}
			if d, is := ev.(*types.DuplicateVoteEvidence); is && d.VoteA != nil && d.VoteB != nil {
				if tag, is := h.deepSigs[string(d.VoteA.Signature)+string(d.VoteB.Signature)]; is {
					key = keyConsInvalid
					why += " (item formed by the pool from reported votes, " + tag + ")"
				}
			}
			h.violation(key, fmt.Sprintf("after %s an item that fails the reference predicate (%s) is pending", op, why),
				map[string]interface{}{"evidence": evDesc(ev), "reason": why})
		}
	}
	return o
}

// bounds: must ⊆ observed ⊆ may (by evidence hash).
func (h *hist) bounds(op string, o *obs, must, may map[string]bool) {
	if h.dead {
		return // a new violation was just reported for this operation; its consequences are not news
	}
	var lost, extra []string
	for k := range must {
		if _, ok := o.set[k]; !ok {
			lost = append(lost, fmt.Sprintf("%X", short([]byte(k))))
		}
	}
	for k := range o.set {
		if !may[k] && !o.reported[k] { // an item reported as invalid above is not reported a second time
			extra = append(extra, fmt.Sprintf("%X", short([]byte(k)))+" "+evDesc(o.items[k]))
		}
	}
	sort.Strings(lost)
	sort.Strings(extra)
	if len(lost) > 0 {
		h.violation("pending-lost-item-"+op, fmt.Sprintf("%s: %d pending item(s) vanished that were neither committed nor expired", op, len(lost)),
			map[string]interface{}{"lost": lost})
	}
	if len(extra) > 0 {
		h.violation("pending-unexpected-item-"+op, fmt.Sprintf("%s: %d item(s) became pending that the model does not allow", op, len(extra)),
			map[string]interface{}{"unexpected": extra})
	}
}

func (h *hist) adopt(o *obs) {
	h.prev, h.prevItems = o.set, o.items
	h.prevHeights = make(map[string]int64, len(o.items))
	for k, ev := range o.items {
		h.prevHeights[k] = ev.Height()
	}
}

func cpSet(m map[string]string) map[string]bool {
	out := make(map[string]bool, len(m))
	for k := range m {
		out[k] = true
	}
	return out
}

// ---------------------------------------------------------------------------
// reference verdict of a delivered list (block evidence / CheckEvidence)
// ---------------------------------------------------------------------------

type listVerdict struct {
	accept       bool
	reasons      []string // per failing item: class
	onlyExpPend  bool     // every failing item is a pending, structurally valid, expired duplicate-vote item
	s11          int64    // re-counts the S11 defect would produce
	mayAdd       map[string]bool
	failingDescs []string
	// classKeys: for every failing item the finding key of its input class, if it
	// has one of its own ("" otherwise); explained = all of them have one.
	classKeys []string
	explained bool
}

func (h *hist) judgeList(list []types.Evidence) listVerdict {
	v := listVerdict{accept: true, onlyExpPend: true, mayAdd: map[string]bool{}}
	seen := map[string]bool{}
	pendingNow := cpSet(h.prev)
	walking := true // the implementation-shaped walk used only to attribute S11 re-counts
	for _, ev := range list {
		k := hashKey(ev)
		ok, why, known := h.structOK(ev)
		if !known {
			h.c.HarnessError("C11 hist %d: list item of unknown provenance %s", h.idx, evDesc(ev))
			h.dead = true
		}
		_, isLCA := ev.(*types.LightClientAttackEvidence)
		class := ""
		switch {
		case !ok:
			class = "invalid:" + why
		case h.committed[k] != 0:
			class = "committed"
		case h.expired(ev.Height()):
			class = "expired"
		case seen[k]:
			class = "duplicate"
		}
		if class != "" {
			v.accept = false
			v.reasons = append(v.reasons, class)
			v.failingDescs = append(v.failingDescs, class+" "+evDesc(ev))
			_, isDVE := ev.(*types.DuplicateVoteEvidence)
			ck := ""
			if class == "expired" && isDVE && h.prev[k] != "" {
				ck = "checkevidence-accepts-expired-pending"
			} else {
				v.onlyExpPend = false
			}
			if class == "invalid:"+misattributed {
				ck = misattributedKey
			}
			v.classKeys = append(v.classKeys, ck)
		} else {
			v.mayAdd[k] = true
		}
		if walking {
			if isLCA || !pendingNow[k] {
				if class != "" && class != "duplicate" {
					walking = false
				} else if pendingNow[k] {
					v.s11++
				} else {
					pendingNow[k] = true
				}
			}
			if class == "duplicate" {
				walking = false
			}
		}
		seen[k] = true
	}
	if v.accept {
		v.onlyExpPend = false
	}
	v.explained = len(v.classKeys) > 0
	for _, ck := range v.classKeys {
		v.explained = v.explained && ck != ""
	}
	return v
}

func classOf(reasons []string) string {
	// the most specific single class, for the finding key
	set := map[string]bool{}
	for _, r := range reasons {
		if i := strings.IndexByte(r, ':'); i >= 0 {
			r = r[:i]
		}
		set[r] = true
	}
	for _, c := range []string{"invalid", "committed", "duplicate", "expired"} {
		if set[c] {
			return c
		}
	}
	return "unknown"
}

// ---------------------------------------------------------------------------
// operations
// ---------------------------------------------------------------------------

// gateRPC: the way /broadcast_evidence delivers evidence (JSON, ValidateBasic).
func gateRPC(ev types.Evidence) (out types.Evidence, err error) {
	defer func() {
		if r := recover(); r != nil {
			out, err = nil, fmt.Errorf("panic in JSON round trip: %v", r)
		}
	}()
	bz, err := tmjson.Marshal(ev)
	if err != nil {
		return nil, err
	}
	if err := tmjson.Unmarshal(bz, &out); err != nil {
		return nil, err
	}
	if out == nil {
		return nil, fmt.Errorf("nil evidence")
	}
	if err := out.ValidateBasic(); err != nil {
		return nil, err
	}
	return out, nil
}

// opAdd offers one item the way a peer (or, one time in five, an RPC client) does.
func (h *hist) opAdd(raw types.Evidence, label string) {
	k := hashKey(raw)
	ok, why, known := h.structOK(raw)
	if !known {
		h.c.HarnessError("C11 hist %d: offered item of unknown provenance", h.idx)
		h.dead = true
		return
	}
	isNew := h.committed[k] == 0
	fresh := !h.expired(raw.Height())
	_, wasPending := h.prev[k]
	want := ok && fresh && isNew
	h.cur = fmt.Sprintf("AddEvidence(%s %s) at height %d", label, evDesc(raw), h.ch.Height())
	wm := h.wire[raw]
	var wire types.Evidence
	var gerr error
	switch {
	case wm != nil:
		label += "/wire:" + wm.name
		h.cur += " re-encoded with " + wm.name
		wire, gerr = gateWith(raw, wm)
		h.countWire(wm, gerr)
		if gerr == nil {
			h.adoptVerdict(raw, wire)
			h.wire[wire] = wm // the decoded form still carries the rewritten fields when it is offered again
		}
	case h.r.Intn(5) == 0:
		label += "/rpc"
		h.cur += " via JSON"
		wire, gerr = gateRPC(raw)
	default:
		wire, gerr = gate(raw)
	}
	var aerr error
	if gerr == nil {
		aerr = h.guard("addevidence", []*wireMut{wm}, func() error { return h.pool().AddEvidence(wire) })
		if h.dead {
			return
		}
	}
	real := "admitted"
	o := h.observe("addevidence", 0, false)
	if wm != nil && wm.malformed && gerr != nil {
		// a malformed message was refused by the decoder: counted, nothing else demanded
		h.logf("add %s [lca] malformed encoding refused: %v", label, firstErr(gerr))
		h.bounds("addevidence", o, cpSet(h.prev), cpSet(h.prev))
		h.adopt(o)
		return
	}
	_, nowPending := o.set[k]
	switch {
	case wasPending:
		real = "already-pending"
	case gerr != nil:
		real = "rejected-at-gate"
	case aerr != nil:
		real = "rejected"
	case !nowPending:
		real = "ignored"
	}
	h.logf("add %s [%s] ref(valid=%v %s fresh=%v new=%v pending=%v) real=%s err=%v %s", label, kindOf(raw), ok, why, fresh, isNew, wasPending, real, firstErr(gerr, aerr), evDesc(raw))
	h.c.Count("add/"+kindOf(raw)+"/"+real, 1)
	if wm != nil {
		h.c.Count(fmt.Sprintf("wire-add/ref-valid=%v/%s", ok, real), 1)
	} else {
		h.c.Count("mut/"+kindOf(raw)+"/"+label+"/"+fmt.Sprint(want), 1)
	}
	may := cpSet(h.prev)
	must := cpSet(h.prev)
	if want && gerr == nil || wasPending {
		may[k] = true
	}
	if want && !wasPending {
		must[k] = true
	}
	if !wasPending && nowPending && !want {
		cls := "invalid"
		switch {
		case !ok:
		case !isNew:
			cls = "committed"
		case !fresh:
			cls = "expired"
		}
		key := "addevidence-admits-" + cls
		if cls == "invalid" && why == misattributed {
			key = misattributedKey
		}
		h.violation(key, fmt.Sprintf("AddEvidence admitted %s evidence (%s)", cls, why),
			map[string]interface{}{"evidence": evDesc(raw), "mutation": label, "reason": why})
	} else if want && !wasPending && !nowPending && wm != nil && wm.lenient {
		// an encoding whose refusal is acceptable (see wire.go)
		h.c.Count("wire/lenient-mutation-refused", 1)
		delete(must, k)
	} else if want && !wasPending && !nowPending {
		key := "addevidence-rejects-genuine-" + kindOf(raw)
		if l, is := raw.(*types.LightClientAttackEvidence); is && len(l.ByzantineValidators) == 0 && strings.Contains(fmt.Sprint(aerr), "amnesia") {
			key = "lca-amnesia-rejected-after-proto"
		}
		h.violation(key, fmt.Sprintf("valid, fresh, new evidence was not admitted (%s: %v)", real, firstErr(gerr, aerr)),
			map[string]interface{}{"evidence": evDesc(raw), "mutation": label, "error": fmt.Sprint(firstErr(gerr, aerr))})
		delete(must, k)
	}
	if !h.dead {
		h.bounds("addevidence", o, must, may)
	}
	h.adopt(o)
	if want {
		h.nAdmit++
	} else {
		h.nReject++
	}
	h.remember(raw, wire, ok)
}

func (h *hist) remember(raw, wire types.Evidence, ok bool) {
	if wire == nil {
		return
	}
	if ok {
		if len(h.validSeen) < 64 {
			h.validSeen = append(h.validSeen, wire)
		} else {
			h.validSeen[h.r.Intn(64)] = wire
		}
	} else {
		if len(h.rejected) < 16 {
			h.rejected = append(h.rejected, wire)
		} else {
			h.rejected[h.r.Intn(16)] = wire
		}
	}
}

func descList(list []types.Evidence) []string {
	out := make([]string, len(list))
	for i, ev := range list {
		out[i] = evDesc(ev)
	}
	return out
}

func kindOf(ev types.Evidence) string {
	if _, ok := ev.(*types.LightClientAttackEvidence); ok {
		return "lca"
	}
	return "dve"
}

// firstErr returns the first non-nil error, with its text cut short (the
// pool's errors print whole light blocks).
func firstErr(es ...error) error {
	for _, e := range es {
		if e != nil {
			s := strings.Join(strings.Fields(e.Error()), " ")
			if len(s) > 240 {
				s = s[:240] + "…"
			}
			return fmt.Errorf("%s", s)
		}
	}
	return nil
}

// deliverList sends a list through the block-evidence wire format.
func gateList(list []types.Evidence) ([]types.Evidence, error) { return gateListWith(list, nil) }

func gateListWith(list []types.Evidence, muts []*wireMut) (out []types.Evidence, err error) {
	defer func() {
		if r := recover(); r != nil {
			out, err = nil, fmt.Errorf("panic in protobuf round trip: %v", r)
		}
	}()
	d := types.EvidenceData{Evidence: list}
	pb, err := d.ToProto()
	if err != nil {
		return nil, err
	}
	for i := range pb.Evidence {
		if i < len(muts) {
			muts[i].apply(&pb.Evidence[i])
		}
	}
	bz, err := pb.Marshal()
	if err != nil {
		return nil, err
	}
	var pb2 tmproto.EvidenceList
	if err := pb2.Unmarshal(bz); err != nil {
		return nil, err
	}
	var d2 types.EvidenceData
	if err := d2.FromProto(&pb2); err != nil {
		return nil, err
	}
	for _, ev := range d2.Evidence {
		if err := ev.ValidateBasic(); err != nil {
			return nil, err
		}
	}
	return d2.Evidence, nil
}

// compareListVerdict reports disagreements between the real verdict on a
// delivered list and the reference.  Returns true if the history may go on
// treating the real verdict as the node's behaviour.
func (h *hist) compareListVerdict(op string, v listVerdict, realAccept bool, realErr error, list []types.Evidence) {
	switch {
	case realAccept && !v.accept && v.explained:
		// every failing item belongs to an input class with a finding key of its own
		seen := map[string]bool{}
		for _, ck := range v.classKeys {
			if seen[ck] {
				continue
			}
			seen[ck] = true
			switch ck {
			case "checkevidence-accepts-expired-pending":
				// what a node that never had these items pending says about the same list
				other := "n/a"
				if fp, err := evidence.NewPool(dbm.NewMemDB(), h.ch.StateStore, h.ch.BlockStore); err == nil {
					if w, err := gateList(list); err == nil {
						other = fmt.Sprint(firstErr(h.guard("checkevidence", nil, func() error { return fp.CheckEvidence(w) })))
					}
				}
				h.violation(ck, op+" accepted evidence that is expired by both limits because it is still pending (verification skipped for pending duplicate-vote evidence)",
					map[string]interface{}{"failing_items": v.failingDescs, "empty_pool_verdict": "CheckEvidence of a node with an empty pool on the same list: " + other})
			default:
				h.violation(ck, fmt.Sprintf("%s accepted a list the reference rejects (%v)", op, v.reasons),
					map[string]interface{}{"failing_items": v.failingDescs})
			}
		}
	case realAccept && !v.accept:
		h.violation(op+"-accepts-"+classOf(v.reasons), fmt.Sprintf("%s accepted a list the reference rejects (%v)", op, v.reasons),
			map[string]interface{}{"failing_items": v.failingDescs})
	case !realAccept && v.accept && h.anyLenient(list):
		h.c.Count("wire/lenient-mutation-refused", 1)
	case !realAccept && v.accept:
		key := op + "-rejects-genuine"
		for _, ev := range list {
			if l, is := ev.(*types.LightClientAttackEvidence); is && len(l.ByzantineValidators) == 0 && strings.Contains(fmt.Sprint(realErr), "amnesia") {
				key = "lca-amnesia-rejected-after-proto"
			}
		}
		descs := make([]string, len(list))
		for i, ev := range list {
			descs[i] = evDesc(ev)
		}
		h.violation(key, fmt.Sprintf("%s rejected a list of valid, fresh, new, distinct evidence: %v", op, realErr),
			map[string]interface{}{"list": descs, "error": fmt.Sprint(realErr)})
	}
}

// opCheck: CheckEvidence on a delivered list.
func (h *hist) opCheck(list []types.Evidence, label string) {
	v := h.judgeList(list)
	if h.dead {
		return
	}
	h.cur = fmt.Sprintf("CheckEvidence(%s %s) at height %d", label, descList(list), h.ch.Height())
	muts, anyMut, malformed := h.mutsOf(list)
	if anyMut {
		label += "/wire"
	}
	wire, gerr := gateListWith(list, muts)
	for i, m := range muts {
		h.countWire(m, gerr)
		if gerr == nil {
			h.adoptVerdict(list[i], wire[i])
		}
	}
	var cerr error
	if gerr == nil {
		cerr = h.guard("checkevidence", muts, func() error { return h.pool().CheckEvidence(wire) })
		if h.dead {
			return
		}
	}
	realAccept := gerr == nil && cerr == nil
	if gerr != nil {
		v.s11 = 0 // the pool was not reached
	}
	o := h.observe("checkevidence", v.s11, false)
	if malformed && gerr != nil {
		h.logf("check %s n=%d malformed encoding refused: %v", label, len(list), firstErr(gerr))
		h.bounds("checkevidence", o, cpSet(h.prev), cpSet(h.prev))
		h.adopt(o)
		return
	}
	if anyMut {
		h.c.Count(fmt.Sprintf("wire-check/ref=%v/real=%v", v.accept, realAccept), 1)
	}
	h.logf("check %s n=%d ref=%v %v real=%v err=%v", label, len(list), v.accept, v.reasons, realAccept, firstErr(gerr, cerr))
	h.c.Count(fmt.Sprintf("check/ref=%v/real=%v", v.accept, realAccept), 1)
	h.c.Count("checklist/"+label, 1)
	h.compareListVerdict("checkevidence", v, realAccept, firstErr(gerr, cerr), list)
	if !h.dead {
		may := cpSet(h.prev)
		for k := range v.mayAdd {
			may[k] = true
		}
		h.bounds("checkevidence", o, cpSet(h.prev), may)
	}
	h.adopt(o)
}

// wireSize: size of the evidence list of a block as encoded by the sender.
func wireSize(list []types.Evidence, muts []*wireMut) int64 {
	d := types.EvidenceData{Evidence: list}
	pb, err := d.ToProto()
	if err != nil {
		return d.ByteSize()
	}
	for i := range pb.Evidence {
		if i < len(muts) {
			muts[i].apply(&pb.Evidence[i])
		}
	}
	return int64(pb.Size())
}

// mutsOf returns the hostile encoders attached to the items of a list.
func (h *hist) mutsOf(list []types.Evidence) (muts []*wireMut, any, malformed bool) {
	muts = make([]*wireMut, len(list))
	for i, ev := range list {
		if m := h.wire[ev]; m != nil {
			muts[i] = m
			any = true
			malformed = malformed || m.malformed
		}
	}
	return
}

// opForwardLunatic offers forward-lunatic evidence.  No verdict is demanded
// (see genForwardLunatic); what the pool does is counted, and if it admits the
// item the model follows.
func (h *hist) opForwardLunatic() {
	ev := h.genForwardLunatic()
	if ev == nil {
		return
	}
	h.lcaVerdict[bytesKey(ev)] = lcaInfo{true, "forward-lunatic"}
	h.cur = fmt.Sprintf("AddEvidence(forward-lunatic %s) at height %d", evDesc(ev), h.ch.Height())
	wire, gerr := gate(ev)
	var aerr error
	if gerr == nil {
		aerr = h.pool().AddEvidence(wire)
	}
	o := h.observe("addevidence", 0, false)
	res := "admitted"
	if e := firstErr(gerr, aerr); e != nil {
		res = "rejected"
		if strings.Contains(e.Error(), "don't have commit at height") {
			res = "rejected: no canonical commit for the latest height"
		}
	}
	h.c.Count("observation/forward-lunatic/"+res, 1)
	h.logf("add forward-lunatic (observation only) real=%s %s", res, evDesc(ev))
	may := cpSet(h.prev)
	may[hashKey(ev)] = true
	h.bounds("addevidence", o, cpSet(h.prev), may)
	h.adopt(o)
}

// opReport: consensus reports conflicting votes for the height being decided
// (or a recent decided one).
func (h *hist) opReport() {
	next := h.ch.NextHeight()
	height := next
	var vals *types.ValidatorSet
	var base time.Time
	if h.r.Intn(4) == 0 && h.ch.Height() >= h.ch.Opt.InitialHeight {
		height = h.ch.Height() - int64(h.r.Intn(2))
		if h.ch.Hist[height] == nil {
			height = h.ch.Height()
		}
		vals = h.ch.Hist[height].StateBefore.Validators
		base = h.ch.Hist[height].Block.Time
	} else {
		vals = h.ch.State.Validators
		base = h.ch.State.LastBlockTime
	}
	a, b, _ := h.genVotePair(vals, height, base)
	h.cur = fmt.Sprintf("ReportConflictingVotes(height %d) at height %d", height, h.ch.Height())
	h.pool().ReportConflictingVotes(a, b)
	o := h.observe("reportconflictingvotes", 0, false)
	h.logf("report votes height=%d val=%X", height, short(a.ValidatorAddress))
	h.bounds("reportconflictingvotes", o, cpSet(h.prev), cpSet(h.prev)) // not before its height is decided
	h.adopt(o)
	h.buffer = append(h.buffer, bufItem{a: a, b: b, height: height})
	if h.r.Intn(6) == 0 { // consensus may see the same pair again
		h.pool().ReportConflictingVotes(b, a)
		h.buffer = append(h.buffer, bufItem{a: b, b: a, height: height})
	}
	h.c.Count("op/report", 1)
}

// opRestart reopens the pool on the same evidence DB.
func (h *hist) opRestart() {
	h.cur = fmt.Sprintf("restart (NewPool on the same evidence DB) at height %d", h.ch.Height())
	np, err := evidence.NewPool(h.evDB, h.ch.StateStore, h.ch.BlockStore)
	if err != nil {
		_, bad := h.scanPendingRecords()
		h.violation(keyRestartFails, fmt.Sprintf("the pool cannot be re-created on its own evidence DB: %v", firstErr(err)),
			map[string]interface{}{"undecodable_records": bad})
		h.dead = true // no pool to go on with
		return
	}
	h.px.p = np
	h.buffer = nil // reported votes live in memory only; consensus re-reports after WAL replay
	o := h.observe("restart", 0, true)
	must := map[string]bool{}
	for k := range h.prev {
		if !h.expiredByHash(k) {
			must[k] = true
		}
	}
	h.logf("restart pending=%d", len(o.set))
	h.bounds("restart", o, must, cpSet(h.prev))
	h.adopt(o)
	h.nRestart++
	h.c.Count("op/restart", 1)
}

// expiredByHash: is the pending item (known from the previous observation) expired now?
func (h *hist) expiredByHash(k string) bool {
	if ht, ok := h.prevHeights[k]; ok {
		return h.expired(ht)
	}
	return false
}

// opPending: PendingEvidence with a byte limit, as a proposer calls it.
func (h *hist) opPending(maxBytes int64) []types.Evidence {
	h.cur = fmt.Sprintf("PendingEvidence(%d) at height %d", maxBytes, h.ch.Height())
	list, size := h.pool().PendingEvidence(maxBytes)
	o := h.observe("pendingevidence", 0, false)
	seen := map[string]bool{}
	for _, ev := range list {
		k := hashKey(ev)
		if h.committed[k] != 0 {
			h.violation("pendingevidence-returns-committed", "PendingEvidence returned evidence that was committed before", map[string]interface{}{"evidence": evDesc(ev)})
		}
		if _, ok := o.set[k]; !ok {
			h.violation("pendingevidence-returns-nonpending", "PendingEvidence(maxBytes) returned an item that the unbounded listing does not contain", map[string]interface{}{"evidence": evDesc(ev)})
		}
		if seen[k] {
			h.violation("pendingevidence-returns-duplicate", "PendingEvidence returned the same evidence twice", map[string]interface{}{"evidence": evDesc(ev)})
		}
		seen[k] = true
		if h.expired(ev.Height()) {
			h.c.Count("proposal_contains_expired_pending", 1)
		}
	}
	d := types.EvidenceData{Evidence: list}
	if got := d.ByteSize(); maxBytes >= 0 && got > maxBytes {
		h.violation("pendingevidence-exceeds-maxbytes", fmt.Sprintf("PendingEvidence(%d) returned %d bytes of evidence (reported size %d)", maxBytes, got, size),
			map[string]interface{}{"max_bytes": maxBytes, "got": got})
	}
	h.bounds("pendingevidence", o, cpSet(h.prev), cpSet(h.prev))
	h.adopt(o)
	h.c.Count("op/pendingevidence", 1)
	if len(list) > 0 && len(list) < len(o.set) {
		h.c.Count("pendingevidence_truncated_by_maxbytes", 1)
	}
	return list
}

// ---------------------------------------------------------------------------
// one height
// ---------------------------------------------------------------------------

func (h *hist) churnTxs() []types.Tx {
	var txs []types.Tx
	if h.r.Intn(100) >= h.churnPct {
		return txs
	}
	nv := h.ch.State.NextValidators
	switch c := h.r.Intn(3); {
	case c == 0 && nv.Size() < 8:
		k := h.ch.NewKey()
		txs = append(txs, chaingen.ValTx(k, 1+h.r.Int63n(30)))
	case c == 1 && nv.Size() > 2:
		v := nv.Validators[h.r.Intn(nv.Size())]
		if pv, ok := h.ch.Keys[string(v.Address)]; ok {
			txs = append(txs, types.Tx(fmt.Sprintf("val:%X:0", pv.PrivKey.PubKey().Bytes())))
		}
	default:
		v := nv.Validators[h.r.Intn(nv.Size())]
		if pv, ok := h.ch.Keys[string(v.Address)]; ok {
			txs = append(txs, types.Tx(fmt.Sprintf("val:%x:%d", pv.PrivKey.PubKey().Bytes(), 1+h.r.Int63n(30))))
		}
	}
	return txs
}

func (h *hist) commitPlan(plan *chaingen.StepPlan) {
	if h.r.Intn(5) == 0 {
		plan.Round = int32(h.r.Intn(3))
	}
	if h.r.Intn(3) == 0 {
		vals := h.ch.State.Validators
		flags := h.coalition(vals)
		plan.Flag = func(idx int, _ *types.Validator) types.BlockIDFlag { return flags[idx] }
	}
}

// craftedList builds a hostile / mixed block evidence list.
func (h *hist) craftedList() ([]types.Evidence, string) {
	pendingItems := h.pendingItems()
	pick := func(l []types.Evidence) types.Evidence { return l[h.r.Intn(len(l))] }
	var list []types.Evidence
	label := "mixed"
	switch c := h.r.Intn(10); {
	case c == 0 && len(h.committedList) > 0:
		label = "committed-again"
		list = append(list, pick(h.committedList))
	case c == 1 && len(h.committedList) > 0:
		label = "fresh+committed"
		list = append(list, h.genDVE(h.pickHeight(h.ch.Height())), pick(h.committedList))
	case c == 2:
		label = "internal-duplicate"
		var e types.Evidence = h.genDVE(h.pickHeight(h.ch.Height()))
		if len(pendingItems) > 0 && h.r.Intn(2) == 0 {
			e = pick(pendingItems)
		}
		list = append(list, e)
		if h.r.Intn(2) == 0 {
			list = append(list, h.genDVE(h.pickHeight(h.ch.Height())))
		}
		list = append(list, e)
	case c == 3:
		label = "with-perturbed"
		base := h.genDVE(h.pickHeight(h.ch.Height()))
		if h.r.Intn(2) == 0 {
			list = append(list, base)
		}
		if p := h.perturbDVE(base, dvePerturbations[h.r.Intn(len(dvePerturbations))]); p != nil {
			list = append(list, p)
		}
	case c == 4 && len(pendingItems) > 0:
		label = "pending-subset"
		for _, i := range h.r.Perm(len(pendingItems)) {
			if len(list) < 1+h.r.Intn(3) {
				list = append(list, pendingItems[i])
			}
		}
	case c == 5:
		label = "lca"
		if b := h.genLCA(); b != nil {
			h.lcaVerdict[bytesKey(b.ev)] = lcaInfo{true, "genuine-" + b.kind}
			list = append(list, b.ev)
			if h.r.Intn(3) == 0 {
				name := h.pickLCAPerturbation()
				if p := h.perturbLCA(b, name); p != nil {
					h.lcaVerdict[bytesKey(p)] = lcaInfo{false, name}
					list = []types.Evidence{p}
					label = "lca-perturbed"
					h.maybeWire(p, name)
				}
			} else {
				h.maybeWire(b.ev, "")
			}
		}
	case c == 6:
		label = "many-fresh"
		n := 2 + h.r.Intn(8)
		for i := 0; i < n; i++ {
			list = append(list, h.genDVE(h.pickHeight(h.ch.Height())))
		}
	case c == 7 && len(h.rejected) > 0:
		label = "previously-rejected"
		list = append(list, pick(h.rejected))
	default:
		label = "fresh"
		n := 1 + h.r.Intn(3)
		for i := 0; i < n; i++ {
			list = append(list, h.genDVE(h.pickHeight(h.ch.Height())))
		}
		if len(pendingItems) > 0 && h.r.Intn(2) == 0 {
			list = append(list, pick(pendingItems))
		}
	}
	if len(list) == 0 {
		list = append(list, h.genDVE(h.pickHeight(h.ch.Height())))
		label = "fresh"
	}
	return list, label
}

func (h *hist) pendingItems() []types.Evidence {
	keys := make([]string, 0, len(h.prevItems))
	for k := range h.prevItems {
		keys = append(keys, k)
	}
	sort.Strings(keys)
	out := make([]types.Evidence, len(keys))
	for i, k := range keys {
		out[i] = h.prevItems[k]
	}
	return out
}

// stepHeight decides the next height: a proposed block is validated as a
// node validates a received proposal, then applied through the real executor.
func (h *hist) stepHeight() {
	plan := chaingen.StepPlan{Txs: h.churnTxs()}
	if h.paramAt == h.ch.NextHeight() {
		plan.Txs = append(plan.Txs, types.Tx(fmt.Sprintf("param:evage=%d", h.paramAge)))
	}
	h.commitPlan(&plan)
	label := "none"
	var forced types.Evidence
	for len(h.forceCommit) > 0 && forced == nil {
		ev := h.forceCommit[0]
		h.forceCommit = h.forceCommit[1:]
		if _, pending := h.prev[hashKey(ev)]; pending && !h.expired(ev.Height()) {
			forced = ev
		}
	}
	switch c := h.r.Intn(20); {
	case forced != nil:
		// an item formed from reported votes is committed now and offered again afterwards
		label = "consensus-reported"
		plan.Evidence = []types.Evidence{forced}
	case c < 8:
	case c < 15:
		label = "proposer"
		plan.Evidence = h.opPending(h.ch.State.ConsensusParams.Evidence.MaxBytes)
	default:
		plan.Evidence, label = h.craftedList()
	}
	if h.dead {
		return
	}
	applied := false
	if len(plan.Evidence) > 0 {
		applied = h.tryBlock(plan, label)
		if h.dead {
			return
		}
	}
	if !applied {
		plan.Evidence = nil
		h.applyBlock(plan, nil, "none")
	}
	if applied && forced != nil && !h.dead {
		h.c.Count("consensus-pair/committed", 1)
		if _, still := h.prev[hashKey(forced)]; still {
			h.violation(keyConsRecommits, "an item formed from reported votes is still pending after the block that committed it", map[string]interface{}{"evidence": evDesc(forced)})
		}
		if !h.dead {
			h.opAdd(forced, "consensus-reported-committed")
		}
		if !h.dead {
			h.opCheck([]types.Evidence{forced}, "consensus-reported-committed")
		}
	}
}

// tryBlock validates the proposed block (with evidence) and applies it if the node accepts it.
func (h *hist) tryBlock(plan chaingen.StepPlan, label string) bool {
	// A hostile proposer sends a block whose evidence hash is the one the
	// receiver computes from the decoded items; so items with a hostile encoder
	// are put into the proposal in their decoded form and the same (idempotent)
	// rewriting is applied again to the encoded block.
	list := append([]types.Evidence{}, plan.Evidence...)
	muts, anyMut, malformed := h.mutsOf(list)
	for i, m := range muts {
		if m == nil {
			continue
		}
		if w, err := gateWith(list[i], m); err == nil {
			h.adoptVerdict(list[i], w)
			h.wire[w] = m
			list[i] = w
		}
	}
	plan.Evidence = list
	wireNames := ""
	if anyMut {
		label += "/wire"
		for _, m := range muts {
			if m != nil {
				wireNames += " re-encoded with " + m.name
			}
		}
	}
	v := h.judgeList(list)
	if h.dead {
		return false
	}
	maxBytes := h.ch.State.ConsensusParams.Evidence.MaxBytes
	// the limit applies to the evidence bytes as transmitted
	size := wireSize(list, muts)
	refAccept := v.accept && size <= maxBytes
	if size > maxBytes {
		v.reasons = append(v.reasons, "oversize")
		v.onlyExpPend, v.explained = false, false
	}
	h.cur = fmt.Sprintf("ValidateBlock(height %d, evidence %s %s)", h.ch.NextHeight(), label, descList(list))
	h.cur += wireNames
	block, _ := h.ch.Propose(plan)
	var blk2 *types.Block
	gerr := func() (err error) {
		defer func() {
			if r := recover(); r != nil {
				err = fmt.Errorf("panic in block protobuf round trip: %v", r)
			}
		}()
		pb, err := block.ToProto()
		if err != nil {
			return err
		}
		for i := range pb.Evidence.Evidence {
			if i < len(muts) {
				muts[i].apply(&pb.Evidence.Evidence[i])
			}
		}
		bz, err := pb.Marshal()
		if err != nil {
			return err
		}
		var pb2 tmproto.Block
		if err := pb2.Unmarshal(bz); err != nil {
			return err
		}
		blk2, err = types.BlockFromProto(&pb2)
		return err
	}()
	for _, m := range muts {
		h.countWire(m, gerr)
	}
	var verr error
	if gerr == nil {
		verr = h.guard("validateblock", muts, func() error { return h.ch.Exec.ValidateBlock(h.ch.State, blk2) })
		if h.dead {
			return false
		}
	}
	realAccept := gerr == nil && verr == nil
	s11 := v.s11
	if size > maxBytes || gerr != nil {
		s11 = 0 // rejected before the pool is asked
	}
	o := h.observe("validateblock", s11, false)
	if malformed && gerr != nil {
		h.logf("validateblock %s n=%d malformed encoding refused: %v", label, len(list), firstErr(gerr))
		h.bounds("validateblock", o, cpSet(h.prev), cpSet(h.prev))
		h.adopt(o)
		return false
	}
	if anyMut {
		h.c.Count(fmt.Sprintf("wire-block/ref=%v/real=%v", refAccept, realAccept), 1)
	}
	h.logf("validateblock %s n=%d bytes=%d/%d ref=%v %v real=%v err=%v", label, len(list), size, maxBytes, refAccept, v.reasons, realAccept, firstErr(gerr, verr))
	h.c.Count(fmt.Sprintf("validateblock/ref=%v/real=%v", refAccept, realAccept), 1)
	h.c.Count("blocklist/"+label, 1)
	if label == "proposer" && !realAccept {
		h.c.Count("proposer_block_rejected_by_own_pool", 1)
	}
	if size > maxBytes {
		h.c.Count("block_evidence_oversize", 1)
		if realAccept {
			h.violation("validateblock-accepts-oversize-evidence", fmt.Sprintf("block with %d bytes of evidence accepted, MaxBytes=%d", size, maxBytes), nil)
		}
	} else {
		h.compareListVerdict("validateblock", v, realAccept, firstErr(gerr, verr), list)
	}
	if !h.dead {
		may := cpSet(h.prev)
		for k := range v.mayAdd {
			may[k] = true
		}
		h.bounds("validateblock", o, cpSet(h.prev), may)
	}
	h.adopt(o)
	if h.dead || !realAccept {
		return false
	}
	if !refAccept && !v.explained {
		return false // unknown disagreement already reported; do not build on it
	}
	return h.applyBlock(plan, blk2, label)
}

// applyBlock runs ApplyBlock (which validates again and calls pool.Update) and
// checks the Update clause of the model.
func (h *hist) applyBlock(plan chaingen.StepPlan, blk *types.Block, label string) bool {
	var parts *types.PartSet
	if blk == nil {
		blk, parts = h.ch.Propose(plan)
	} else {
		parts = blk.MakePartSet(types.BlockPartSizeBytes)
	}
	list := blk.Evidence.Evidence
	s11 := int64(0)
	refOK := true
	if len(list) > 0 {
		v := h.judgeList(list)
		s11, refOK = v.s11, v.accept
	}
	for _, ev := range list {
		if ch := h.committed[hashKey(ev)]; ch != 0 {
			h.violation("evidence-committed-twice", fmt.Sprintf("evidence committed in block %d is being committed again in block %d", ch, blk.Height),
				map[string]interface{}{"evidence": evDesc(ev)})
		}
	}
	if h.dead {
		return false
	}
	h.cur = fmt.Sprintf("ApplyBlock(height %d, evidence %s %s)", blk.Height, label, descList(list))
	rec, err := h.ch.Apply(blk, parts, plan)
	if err != nil {
		if len(list) == 0 {
			h.c.HarnessError("C11 hist %d: evidence-free block rejected at height %d: %v", h.idx, blk.Height, err)
			h.dead = true
			return false
		}
		h.violation("applyblock-rejects-validated-block", fmt.Sprintf("ApplyBlock rejected a block that ValidateBlock had just accepted: %v", err), nil)
		o := h.observe("applyblock-rejected", s11, false)
		h.adopt(o)
		return false
	}
	inBlock := map[string]bool{}
	for _, ev := range list {
		k := hashKey(ev)
		inBlock[k] = true
		h.committed[k] = rec.Height
		if len(h.committedList) < 32 {
			h.committedList = append(h.committedList, ev)
		} else {
			h.committedList[h.r.Intn(32)] = ev
		}
		h.nCommitted++
	}
	// evidence formed from the reported votes: with the block time and validator set of their height
	must, may := map[string]bool{}, map[string]bool{}
	for k := range h.prev {
		if inBlock[k] {
			continue
		}
		may[k] = true
		if !h.expiredByHash(k) {
			must[k] = true
		}
	}
	var jobs []deepJob
	h.deepSigs = map[string]string{}
	for _, b := range h.buffer {
		r := h.ch.Hist[b.height]
		if r == nil {
			continue
		}
		if b.deep {
			h.deepSigs[string(b.a.Signature)+string(b.b.Signature)] = b.tag
			h.deepSigs[string(b.b.Signature)+string(b.a.Signature)] = b.tag
		}
		va, vb := orderVotes(b.a, b.b)
		vals := r.StateBefore.Validators
		val := findVal(vals, va.ValidatorAddress)
		e := &types.DuplicateVoteEvidence{VoteA: va, VoteB: vb, TotalVotingPower: sumPower(vals), ValidatorPower: val.VotingPower, Timestamp: r.Block.Time}
		if ok, why := h.refDVE(e); !ok {
			h.c.HarnessError("C11 hist %d: evidence expected from reported votes is not valid (%s)", h.idx, why)
			h.dead = true
			return false
		}
		k := hashKey(e)
		if inBlock[k] {
			continue
		}
		if h.committed[k] != 0 {
			continue // committed before: must not come back
		}
		may[k] = true
		if b.deep {
			jobs = append(jobs, deepJob{want: e, tag: b.tag}) // presence is judged there, under its own key
		} else if !h.expired(b.height) {
			must[k] = true
		}
		h.nBuffered++
	}
	h.buffer = nil
	o := h.observe("update", s11, false)
	for k := range h.prev {
		if _, still := o.set[k]; !still && !inBlock[k] {
			h.nExpiredPruned++
		}
	}
	h.logf("applied block %d (%s) evidence=%d pending=%d size=%d", rec.Height, label, len(list), len(o.set), o.size)
	h.c.Count("blocks_applied", 1)
	h.c.Count("evidence_committed", int64(len(list)))
	h.bounds("update", o, must, may)
	h.adopt(o)
	h.followerApply(rec, refOK)
	for _, j := range jobs {
		h.deepCheck(j)
	}
	h.deepSigs = nil
	return true
}
