// Package chaingen builds canonical chains (and forks) by running the real
// state.MakeBlock / BlockExecutor.ApplyBlock over in-memory stores, with every
// private key held by the harness (DESIGN.md 2.6).
package chaingen

import (
	"encoding/hex"
	"fmt"
	"sort"
	"time"

	dbm "github.com/tendermint/tm-db"

	"github.com/tendermint/tendermint/crypto/ed25519"
	"github.com/tendermint/tendermint/libs/log"
	mempl "github.com/tendermint/tendermint/mempool"
	"github.com/tendermint/tendermint/mempool/mock"
	tmproto "github.com/tendermint/tendermint/proto/tendermint/types"
	"github.com/tendermint/tendermint/proxy"
	sm "github.com/tendermint/tendermint/state"
	"github.com/tendermint/tendermint/store"
	"github.com/tendermint/tendermint/types"

	"verif/recapp"
)

// Key returns the i-th deterministic validator key of a seed.
func Key(seed int64, i int) ed25519.PrivKey {
	return ed25519.GenPrivKeyFromSecret([]byte(fmt.Sprintf("verif-key-%d-%d", seed, i)))
}

type Options struct {
	ChainID       string
	Seed          int64
	Powers        []int64 // one validator per entry
	InitialHeight int64   // default 1
	GenesisTime   time.Time
	BlockInterval time.Duration // default 1s
	Params        *tmproto.ConsensusParams
	AppOptions    recapp.Options
	EvPool        func(stateStore sm.Store, blockStore *store.BlockStore) sm.EvidencePool // default: empty pool
	Mempool       mempl.Mempool
	// MempoolFactory builds the mempool on the chain's own ABCI connections (takes precedence over Mempool).
	MempoolFactory func(conns proxy.AppConns, st sm.State) mempl.Mempool
	// ClientCreator overrides the in-process local ABCI client (e.g. a socket client to the same app).
	ClientCreator func(app *recapp.App) proxy.ClientCreator
	StateDB       dbm.DB
	BlockDB       dbm.DB
	StoreOptions  sm.StoreOptions
	NoBlockStore  bool // do not save blocks (faster for state-only checks)
}

// HeightRec is everything known about one height.
type HeightRec struct {
	Height      int64
	Block       *types.Block
	Parts       *types.PartSet
	BlockID     types.BlockID
	Commit      *types.Commit // commit for this block (becomes LastCommit of the next)
	StateBefore sm.State
	StateAfter  sm.State
}

type Chain struct {
	Opt        Options
	ChainID    string
	GenDoc     *types.GenesisDoc
	Keys       map[string]types.MockPV // by validator address (string(addr))
	KeyList    []ed25519.PrivKey       // all keys ever created, index = creation order
	StateDB    dbm.DB
	BlockDB    dbm.DB
	StateStore sm.Store
	BlockStore *store.BlockStore
	App        *recapp.App
	Conns      proxy.AppConns
	Exec       *sm.BlockExecutor
	EvPool     sm.EvidencePool
	Mempool    mempl.Mempool
	State      sm.State
	Hist       map[int64]*HeightRec
	Genesis    sm.State
}

// StepPlan scripts one height.
type StepPlan struct {
	Txs      []types.Tx
	Evidence []types.Evidence
	Round    int32
	// Flag decides the commit slot of validator idx (of the set at this height):
	// nil => everybody commits.
	Flag func(idx int, val *types.Validator) types.BlockIDFlag
	// Time of validator idx's precommit; nil => block time + interval + idx ms.
	Time func(idx int) time.Time
	// Proposer overrides the proposer address (default: the set's proposer).
	Proposer []byte
}

func New(opt Options) *Chain {
	if opt.ChainID == "" {
		opt.ChainID = "verif-chain"
	}
	if opt.InitialHeight == 0 {
		opt.InitialHeight = 1
	}
	if opt.BlockInterval == 0 {
		opt.BlockInterval = time.Second
	}
	if opt.GenesisTime.IsZero() {
		opt.GenesisTime = time.Date(2024, 1, 1, 0, 0, 0, 0, time.UTC)
	}
	if opt.StateDB == nil {
		opt.StateDB = dbm.NewMemDB()
	}
	if opt.BlockDB == nil {
		opt.BlockDB = dbm.NewMemDB()
	}
	c := &Chain{Opt: opt, ChainID: opt.ChainID, Keys: map[string]types.MockPV{}, Hist: map[int64]*HeightRec{},
		StateDB: opt.StateDB, BlockDB: opt.BlockDB}
	gvals := make([]types.GenesisValidator, len(opt.Powers))
	for i, p := range opt.Powers {
		k := c.NewKey()
		gvals[i] = types.GenesisValidator{Address: k.PubKey().Address(), PubKey: k.PubKey(), Power: p, Name: fmt.Sprintf("v%d", i)}
	}
	params := types.DefaultConsensusParams()
	if opt.Params != nil {
		params = opt.Params
	}
	c.GenDoc = &types.GenesisDoc{GenesisTime: opt.GenesisTime, ChainID: opt.ChainID, InitialHeight: opt.InitialHeight,
		ConsensusParams: params, Validators: gvals}
	if err := c.GenDoc.ValidateAndComplete(); err != nil {
		panic(err)
	}
	st, err := sm.MakeGenesisState(c.GenDoc)
	if err != nil {
		panic(err)
	}
	c.StateStore = sm.NewStore(c.StateDB, opt.StoreOptions)
	c.BlockStore = store.NewBlockStore(c.BlockDB)
	if err := c.StateStore.Save(st); err != nil {
		panic(err)
	}
	c.App = recapp.New(opt.AppOptions)
	creator := proxy.NewLocalClientCreator(c.App)
	if opt.ClientCreator != nil {
		creator = opt.ClientCreator(c.App)
	}
	c.Conns = proxy.NewAppConns(creator)
	c.Conns.SetLogger(log.NewNopLogger())
	if err := c.Conns.Start(); err != nil {
		panic(err)
	}
	// InitChain like the handshaker does
	c.App.InitChain(InitChainReq(c.GenDoc))
	c.EvPool = sm.EmptyEvidencePool{}
	if opt.EvPool != nil {
		c.EvPool = opt.EvPool(c.StateStore, c.BlockStore)
	}
	mp := opt.Mempool
	if opt.MempoolFactory != nil {
		mp = opt.MempoolFactory(c.Conns, st)
	}
	if mp == nil {
		mp = mock.Mempool{}
	}
	c.Mempool = mp
	c.Exec = sm.NewBlockExecutor(c.StateStore, log.NewNopLogger(), c.Conns.Consensus(), mp, c.EvPool)
	c.State = st
	c.Genesis = st.Copy()
	return c
}

// Close stops the ABCI connections.
func (c *Chain) Close() { _ = c.Conns.Stop() }

// NewKey creates (and remembers) the next deterministic key.
func (c *Chain) NewKey() ed25519.PrivKey {
	k := Key(c.Opt.Seed, len(c.KeyList))
	c.KeyList = append(c.KeyList, k)
	c.Keys[string(k.PubKey().Address())] = types.NewMockPVWithParams(k, false, false)
	return k
}

// ValTx is the recapp tx that sets the power of a key.
func ValTx(k ed25519.PrivKey, power int64) types.Tx {
	return types.Tx(fmt.Sprintf("val:%s:%d", hex.EncodeToString(k.PubKey().Bytes()), power))
}

// Height of the last applied block (InitialHeight-1 if none).
func (c *Chain) Height() int64 { return c.State.LastBlockHeight }

func (c *Chain) NextHeight() int64 {
	if c.State.LastBlockHeight == 0 {
		return c.State.InitialHeight
	}
	return c.State.LastBlockHeight + 1
}

// LastCommit is the commit that the next block must carry.
func (c *Chain) LastCommit() *types.Commit {
	if c.State.LastBlockHeight == 0 {
		return types.NewCommit(0, 0, types.BlockID{}, nil)
	}
	return c.Hist[c.State.LastBlockHeight].Commit
}

// BlockTime is the canonical time of the precommits for height h.
func (c *Chain) VoteTime(h int64, idx int) time.Time {
	n := h - c.Opt.InitialHeight + 1
	return c.Opt.GenesisTime.Add(time.Duration(n) * c.Opt.BlockInterval).Add(time.Duration(idx) * time.Millisecond)
}

// Propose builds (without applying) the next block.
func (c *Chain) Propose(plan StepPlan) (*types.Block, *types.PartSet) {
	h := c.NextHeight()
	prop := plan.Proposer
	if prop == nil {
		prop = c.State.Validators.GetProposer().Address
	}
	return c.State.MakeBlock(h, plan.Txs, c.LastCommit(), plan.Evidence, prop)
}

// Step builds, applies, commits and stores the next height.
func (c *Chain) Step(plan StepPlan) (*HeightRec, error) {
	block, parts := c.Propose(plan)
	return c.Apply(block, parts, plan)
}

// Apply applies a given block as the next height and signs its commit.
func (c *Chain) Apply(block *types.Block, parts *types.PartSet, plan StepPlan) (*HeightRec, error) {
	h := block.Height
	blockID := types.BlockID{Hash: block.Hash(), PartSetHeader: parts.Header()}
	before := c.State.Copy()
	after, _, err := c.Exec.ApplyBlock(c.State, blockID, block)
	if err != nil {
		return nil, err
	}
	commit := c.SignCommit(before.Validators, h, plan.Round, blockID, plan.Flag, func(idx int) time.Time {
		if plan.Time != nil {
			return plan.Time(idx)
		}
		return c.VoteTime(h, idx)
	})
	if !c.Opt.NoBlockStore {
		c.BlockStore.SaveBlock(block, parts, commit)
	}
	rec := &HeightRec{Height: h, Block: block, Parts: parts, BlockID: blockID, Commit: commit, StateBefore: before, StateAfter: after.Copy()}
	c.Hist[h] = rec
	c.State = after
	return rec, nil
}

// MustStep panics on error.
func (c *Chain) MustStep(plan StepPlan) *HeightRec {
	r, err := c.Step(plan)
	if err != nil {
		panic(fmt.Sprintf("chaingen: step at height %d failed: %v", c.NextHeight(), err))
	}
	return r
}

// SignVote signs one precommit / prevote with the key of validator idx of vals.
func (c *Chain) SignVote(vals *types.ValidatorSet, idx int, typ tmproto.SignedMsgType, height int64, round int32, blockID types.BlockID, ts time.Time) *types.Vote {
	val := vals.Validators[idx]
	pv, ok := c.Keys[string(val.Address)]
	if !ok {
		panic("chaingen: no key for validator " + val.Address.String())
	}
	v := &types.Vote{Type: typ, Height: height, Round: round, BlockID: blockID, Timestamp: ts,
		ValidatorAddress: val.Address, ValidatorIndex: int32(idx)}
	pb := v.ToProto()
	if err := pv.SignVote(c.ChainID, pb); err != nil {
		panic(err)
	}
	v.Signature = pb.Signature
	return v
}

// SignCommit builds a commit for blockID by the validators of vals.
func (c *Chain) SignCommit(vals *types.ValidatorSet, height int64, round int32, blockID types.BlockID,
	flag func(idx int, val *types.Validator) types.BlockIDFlag, ts func(idx int) time.Time) *types.Commit {
	sigs := make([]types.CommitSig, vals.Size())
	for i, val := range vals.Validators {
		f := types.BlockIDFlagCommit
		if flag != nil {
			f = flag(i, val)
		}
		switch f {
		case types.BlockIDFlagAbsent:
			sigs[i] = types.NewCommitSigAbsent()
		case types.BlockIDFlagNil:
			v := c.SignVote(vals, i, tmproto.PrecommitType, height, round, types.BlockID{}, ts(i))
			sigs[i] = v.CommitSig()
		default:
			v := c.SignVote(vals, i, tmproto.PrecommitType, height, round, blockID, ts(i))
			sigs[i] = v.CommitSig()
		}
	}
	return types.NewCommit(height, round, blockID, sigs)
}

// LightBlock of a generated height.
func (c *Chain) LightBlock(h int64) *types.LightBlock {
	r := c.Hist[h]
	if r == nil {
		return nil
	}
	return &types.LightBlock{
		SignedHeader: &types.SignedHeader{Header: &r.Block.Header, Commit: r.Commit},
		ValidatorSet: r.StateBefore.Validators.Copy(),
	}
}

// Heights returns the generated heights in order.
func (c *Chain) Heights() []int64 {
	hs := make([]int64, 0, len(c.Hist))
	for h := range c.Hist {
		hs = append(hs, h)
	}
	sort.Slice(hs, func(i, j int) bool { return hs[i] < hs[j] })
	return hs
}
