package chaingen

import (
	abci "github.com/tendermint/tendermint/abci/types"
	"github.com/tendermint/tendermint/types"
)

func InitChainReq(g *types.GenesisDoc) abci.RequestInitChain {
	vals := make([]*types.Validator, len(g.Validators))
	for i, v := range g.Validators {
		vals[i] = types.NewValidator(v.PubKey, v.Power)
	}
	vs := types.NewValidatorSet(vals)
	return abci.RequestInitChain{
		Time: g.GenesisTime, ChainId: g.ChainID, InitialHeight: g.InitialHeight,
		ConsensusParams: types.TM2PB.ConsensusParams(g.ConsensusParams),
		Validators:      types.TM2PB.ValidatorUpdates(vs), AppStateBytes: g.AppState,
	}
}
