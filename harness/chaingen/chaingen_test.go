package chaingen

import (
	"testing"

	"github.com/tendermint/tendermint/types"
)

func TestChain(t *testing.T) {
	c := New(Options{Seed: 1, Powers: []int64{10, 10, 10, 5}})
	defer c.Close()
	nk := c.NewKey()
	for i := 0; i < 12; i++ {
		plan := StepPlan{Txs: []types.Tx{types.Tx("a=b")}}
		if i == 3 {
			plan.Txs = append(plan.Txs, ValTx(nk, 7))
		}
		if i == 7 {
			plan.Txs = append(plan.Txs, ValTx(c.KeyList[0], 0))
		}
		r := c.MustStep(plan)
		lb := c.LightBlock(r.Height)
		if err := lb.ValidateBasic(c.ChainID); err != nil {
			t.Fatal(err)
		}
		if err := r.StateBefore.Validators.VerifyCommit(c.ChainID, r.BlockID, r.Height, r.Commit); err != nil {
			t.Fatal(err)
		}
	}
	if c.State.Validators.Size() != 4 || c.BlockStore.Height() != 12 {
		t.Fatal("unexpected", c.State.Validators.Size(), c.BlockStore.Height())
	}
}
