// Package driver is the command-line front end shared by cmd/vcheck and the per-check dev mains.
package driver

import (
	"flag"
	"fmt"
	"os"
	"sort"
	"testing"

	"verif/verdict"
)

type CheckFn func(c *verdict.Ctx) int

// Main runs the check named on the command line: [--tier quick|thorough] [--replay file] <ID>
func Main(registry map[string]CheckFn) {
	testing.Init()
	tier := flag.String("tier", "quick", "quick|thorough")
	replay := flag.String("replay", "", "replay file")
	flag.Parse()
	if flag.NArg() < 1 {
		ids := []string{}
		for k := range registry {
			ids = append(ids, k)
		}
		sort.Strings(ids)
		fmt.Fprintln(os.Stderr, "usage: vcheck [--tier t] [--replay f] <ID>; known:", ids)
		os.Exit(2)
	}
	id := flag.Arg(0)
	fn, ok := registry[id]
	if !ok {
		fmt.Fprintln(os.Stderr, "unknown check", id)
		os.Exit(2)
	}
	if t := os.Getenv("VERIF_TIER"); t == "quick" || t == "thorough" {
		if !isFlagSet("tier") {
			*tier = t
		}
	}
	c := verdict.New(id, *tier)
	if *replay != "" {
		c.SetReplay(*replay)
	}
	os.Exit(fn(c))
}

func isFlagSet(name string) bool {
	set := false
	flag.Visit(func(f *flag.Flag) {
		if f.Name == name {
			set = true
		}
	})
	return set
}
