// Package verdict is the shared bookkeeping of every check: seeded PRNGs,
// coverage counters, evidence files, replay files, the known-findings matcher
// and the exit-code discipline described in DESIGN.md section 1.
package verdict

import (
	"crypto/sha256"
	"encoding/binary"
	"encoding/hex"
	"encoding/json"
	"fmt"
	"math/rand"
	"os"
	"path/filepath"
	"sort"
	"strconv"
	"sync"
	"time"
)

// Root is /verif (overridable for tests of the harness itself).
func Root() string {
	if r := os.Getenv("VERIF_ROOT"); r != "" {
		return r
	}
	return "/verif"
}

type Finding struct {
	Property string `json:"property"`
	Key      string `json:"key"`
	Status   string `json:"status"` // "known" | "fixed"
	Commit   string `json:"commit,omitempty"`
	What     string `json:"what"`
}

type knownFile struct {
	Findings []Finding `json:"findings"`
}

// Ctx is one run of one check.
type Ctx struct {
	ID    string
	Tier  string // quick | thorough
	Seed  int64
	Level string
	Rule  string

	mu           sync.Mutex
	start        time.Time
	evals        int64
	distinct     map[[8]byte]struct{}
	samples      []interface{}
	maxSamples   int
	extra        map[string]interface{}
	counters     map[string]int64
	assumptions  []string
	violations   int
	knownHits    map[string]int
	violKeys     map[string]int
	inconclusive []string
	known        map[string]Finding
	replayFile   string // when replaying
	harnessErr   []string
	printed      map[string]bool
}

func New(id, tier string) *Ctx {
	seed := int64(1)
	if s := os.Getenv("VERIF_SEED"); s != "" {
		if v, err := strconv.ParseInt(s, 10, 64); err == nil {
			seed = v
		}
	}
	c := &Ctx{ID: id, Tier: tier, Seed: seed, Level: "exploration",
		start: time.Now(), distinct: map[[8]byte]struct{}{}, maxSamples: 5,
		extra: map[string]interface{}{}, counters: map[string]int64{},
		knownHits: map[string]int{}, violKeys: map[string]int{},
		known: map[string]Finding{}, printed: map[string]bool{}}
	files := []string{filepath.Join(Root(), "known_findings.json")}
	more, _ := filepath.Glob(filepath.Join(Root(), "known_findings.d", "*.json"))
	files = append(files, more...)
	for _, fn := range files {
		b, err := os.ReadFile(fn)
		if err != nil {
			continue
		}
		var kf knownFile
		if json.Unmarshal(b, &kf) == nil {
			for _, f := range kf.Findings {
				if f.Status == "known" {
					c.known[f.Property+"/"+f.Key] = f
				}
			}
		}
	}
	return c
}

func (c *Ctx) Thorough() bool { return c.Tier == "thorough" }

// N picks the tier-dependent size of a case list.
func (c *Ctx) N(quick, thorough int) int {
	if c.Thorough() {
		return thorough
	}
	return quick
}

// Rand returns the PRNG of case (stream, idx): a pure function of
// (VERIF_SEED, property id, stream, idx).
func (c *Ctx) Rand(stream string, idx int) *rand.Rand {
	return rand.New(rand.NewSource(c.SubSeed(stream, idx)))
}

func (c *Ctx) SubSeed(stream string, idx int) int64 {
	h := sha256.New()
	var b [8]byte
	binary.LittleEndian.PutUint64(b[:], uint64(c.Seed))
	h.Write(b[:])
	h.Write([]byte(c.ID))
	h.Write([]byte{0})
	h.Write([]byte(stream))
	h.Write([]byte{0})
	binary.LittleEndian.PutUint64(b[:], uint64(idx))
	h.Write(b[:])
	s := h.Sum(nil)
	return int64(binary.LittleEndian.Uint64(s[:8]) &^ (1 << 63))
}

// Eval counts one executed case.
func (c *Ctx) Eval() {
	c.mu.Lock()
	c.evals++
	c.mu.Unlock()
}

// Distinct records a non-trivial case by its descriptor; returns true if new.
func (c *Ctx) Distinct(descriptor ...interface{}) bool {
	h := sha256.New()
	for _, d := range descriptor {
		switch v := d.(type) {
		case []byte:
			h.Write(v)
		case string:
			h.Write([]byte(v))
		default:
			fmt.Fprintf(h, "%v", v)
		}
		h.Write([]byte{0})
	}
	var k [8]byte
	copy(k[:], h.Sum(nil))
	c.mu.Lock()
	defer c.mu.Unlock()
	if _, ok := c.distinct[k]; ok {
		return false
	}
	c.distinct[k] = struct{}{}
	return true
}

func (c *Ctx) Count(name string, n int64) {
	c.mu.Lock()
	c.counters[name] += n
	c.mu.Unlock()
}

func (c *Ctx) Max(name string, v int64) {
	c.mu.Lock()
	if v > c.counters[name] {
		c.counters[name] = v
	}
	c.mu.Unlock()
}

func (c *Ctx) Counter(name string) int64 {
	c.mu.Lock()
	defer c.mu.Unlock()
	return c.counters[name]
}

func (c *Ctx) Set(name string, v interface{}) {
	c.mu.Lock()
	c.extra[name] = v
	c.mu.Unlock()
}

func (c *Ctx) Assume(s ...string) {
	c.mu.Lock()
	c.assumptions = append(c.assumptions, s...)
	c.mu.Unlock()
}

// Sample keeps up to maxSamples written-out cases.
func (c *Ctx) Sample(v interface{}) {
	c.mu.Lock()
	if len(c.samples) < c.maxSamples {
		c.samples = append(c.samples, v)
	}
	c.mu.Unlock()
}

func (c *Ctx) WantSample() bool {
	c.mu.Lock()
	defer c.mu.Unlock()
	return len(c.samples) < c.maxSamples
}

func (c *Ctx) Inconclusive(why string) {
	c.mu.Lock()
	c.inconclusive = append(c.inconclusive, why)
	c.mu.Unlock()
}

func (c *Ctx) HarnessError(format string, a ...interface{}) {
	c.mu.Lock()
	c.harnessErr = append(c.harnessErr, fmt.Sprintf(format, a...))
	c.mu.Unlock()
	fmt.Fprintf(os.Stderr, "HARNESS-ERROR: "+format+"\n", a...)
}

// Violation reports that a monitor fired.  key is the stable finding key
// (call site / input class, never seed-dependent); witness is written to a
// replay file.  Returns true if it was a new (not known) violation.
func (c *Ctx) Violation(key, what string, witness interface{}) bool {
	c.mu.Lock()
	defer c.mu.Unlock()
	full := c.ID + "/" + key
	if f, ok := c.known[full]; ok {
		c.knownHits[key]++
		if !c.printed[full] {
			c.printed[full] = true
			fmt.Printf("KNOWN-FINDING: property=%s %s: %s\n", c.ID, key, f.What)
		}
		return false
	}
	c.violations++
	c.violKeys[key]++
	if c.violKeys[key] > 3 { // keep the first three witnesses per key
		return true
	}
	dir := filepath.Join(Root(), "replay")
	_ = os.MkdirAll(dir, 0o755)
	name := fmt.Sprintf("%s-%s-%d-%d.json", c.ID, sanitize(key), c.Seed, c.violKeys[key])
	path := filepath.Join(dir, name)
	b, _ := json.MarshalIndent(map[string]interface{}{
		"property": c.ID, "key": key, "what": what, "seed": c.Seed,
		"tier": c.Tier, "witness": witness}, "", " ")
	_ = os.WriteFile(path, b, 0o644)
	fmt.Printf("VIOLATION property=%s replay=%s\n", c.ID, path)
	fmt.Printf("  key=%s: %s\n", key, what)
	return true
}

func sanitize(s string) string {
	b := []byte(s)
	for i, ch := range b {
		if !(ch >= 'a' && ch <= 'z' || ch >= 'A' && ch <= 'Z' || ch >= '0' && ch <= '9' || ch == '-' || ch == '_') {
			b[i] = '_'
		}
	}
	return string(b)
}

func (c *Ctx) Violations() int {
	c.mu.Lock()
	defer c.mu.Unlock()
	return c.violations
}

// Finish writes the evidence file and returns the process exit code.
// minDistinct is the coverage minimum below which the run is a harness failure.
func (c *Ctx) Finish(minDistinct int) int {
	c.mu.Lock()
	defer c.mu.Unlock()
	cov := map[string]interface{}{}
	for k, v := range c.extra {
		cov[k] = v
	}
	names := make([]string, 0, len(c.counters))
	for k := range c.counters {
		names = append(names, k)
	}
	sort.Strings(names)
	obs := map[string]int64{}
	for _, k := range names {
		obs[k] = c.counters[k]
	}
	cov["observed"] = obs
	cov["evaluations"] = c.evals
	cov["distinct_nontrivial"] = len(c.distinct)
	cov["rule"] = c.Rule
	if c.samples == nil {
		c.samples = []interface{}{}
	}
	cov["samples"] = c.samples
	cov["inconclusive"] = len(c.inconclusive)
	if len(c.inconclusive) > 0 {
		m := map[string]int{}
		for _, s := range c.inconclusive {
			m[s]++
		}
		cov["inconclusive_reasons"] = m
	}
	cov["known_findings_hit"] = c.knownHits
	if len(c.violKeys) > 0 {
		cov["violation_keys"] = c.violKeys
	}
	if len(c.harnessErr) > 0 {
		cov["harness_errors"] = c.harnessErr
	}
	if c.assumptions == nil {
		c.assumptions = []string{}
	}
	ev := map[string]interface{}{
		"property_id": c.ID, "tier": c.Tier, "seed": c.Seed, "level": c.Level,
		"coverage": cov, "assumptions": c.assumptions,
		"wall_s": time.Since(c.start).Seconds(), "violations": c.violations,
	}
	b, _ := json.MarshalIndent(ev, "", " ")
	if c.replayFile == "" {
		dir := filepath.Join(Root(), "evidence")
		_ = os.MkdirAll(dir, 0o755)
		target := filepath.Join(dir, c.ID+".json")
		if p := os.Getenv("VERIF_EVIDENCE_PATH"); p != "" {
			target = p // a child stage reports to its parent through this file
		}
		if err := os.WriteFile(target, b, 0o644); err != nil {
			fmt.Fprintln(os.Stderr, "cannot write evidence:", err)
			return 2
		}
	}
	fmt.Printf("%s %s seed=%d: evaluations=%d distinct_nontrivial=%d violations=%d known=%d inconclusive=%d wall=%.1fs\n",
		c.ID, c.Tier, c.Seed, c.evals, len(c.distinct), c.violations, len(c.knownHits), len(c.inconclusive), time.Since(c.start).Seconds())
	if c.violations > 0 {
		return 1
	}
	if len(c.harnessErr) > 0 {
		return 2
	}
	if c.replayFile == "" && (len(c.distinct) < minDistinct || len(c.distinct) < 2 || c.evals < 1) {
		fmt.Fprintf(os.Stderr, "HARNESS-ERROR: coverage minimum not met (distinct=%d < %d)\n", len(c.distinct), minDistinct)
		return 2
	}
	return 0
}

func (c *Ctx) SetReplay(path string) { c.replayFile = path }
func (c *Ctx) Replay() string        { return c.replayFile }

// LoadReplay returns the "witness" member of a replay file.
func LoadReplay(path string, into interface{}) error {
	b, err := os.ReadFile(path)
	if err != nil {
		return err
	}
	var w struct {
		Witness json.RawMessage `json:"witness"`
	}
	if err := json.Unmarshal(b, &w); err != nil {
		return err
	}
	return json.Unmarshal(w.Witness, into)
}

func Hex(b []byte) string {
	if len(b) > 48 {
		return hex.EncodeToString(b[:48]) + fmt.Sprintf("…(%d bytes)", len(b))
	}
	return hex.EncodeToString(b)
}

// TmpDir returns a scratch directory outside /tmp, /repo and /verif.
func TmpDir(prefix string) string {
	base := os.Getenv("VERIF_TMP")
	if base == "" {
		base = "/var/tmp/verif"
	}
	_ = os.MkdirAll(base, 0o755)
	d, err := os.MkdirTemp(base, prefix)
	if err != nil {
		panic(err)
	}
	return d
}

// MergeChild folds the evidence file written by a child stage (same check,
// another binary, VERIF_EVIDENCE_PATH) into this run: evaluations, distinct
// cases, observed counters, violations (already printed by the child), known
// findings and inconclusive cases.
func (c *Ctx) MergeChild(path string, prefix string) error {
	b, err := os.ReadFile(path)
	if err != nil {
		return err
	}
	var ev struct {
		Coverage struct {
			Evaluations  int64            `json:"evaluations"`
			Distinct     int              `json:"distinct_nontrivial"`
			Observed     map[string]int64 `json:"observed"`
			Inconclusive int              `json:"inconclusive"`
			Known        map[string]int   `json:"known_findings_hit"`
			Samples      []interface{}    `json:"samples"`
		} `json:"coverage"`
		Violations int `json:"violations"`
	}
	if err := json.Unmarshal(b, &ev); err != nil {
		return err
	}
	c.mu.Lock()
	defer c.mu.Unlock()
	c.evals += ev.Coverage.Evaluations
	for i := 0; i < ev.Coverage.Distinct; i++ {
		var k [8]byte
		h := sha256.Sum256([]byte(fmt.Sprintf("child/%s/%d", path, i)))
		copy(k[:], h[:])
		c.distinct[k] = struct{}{}
	}
	for k, v := range ev.Coverage.Observed {
		c.counters[prefix+k] += v
	}
	for i := 0; i < ev.Coverage.Inconclusive; i++ {
		c.inconclusive = append(c.inconclusive, prefix+"child stage")
	}
	for k, v := range ev.Coverage.Known {
		c.knownHits[k] += v
	}
	c.violations += ev.Violations
	if ev.Violations > 0 {
		c.violKeys[prefix+"child-stage-violations"] += ev.Violations
	}
	for _, smp := range ev.Coverage.Samples {
		if len(c.samples) < c.maxSamples+2 {
			c.samples = append(c.samples, smp)
		}
	}
	return nil
}
