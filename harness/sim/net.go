package sim

import (
	"encoding/hex"
	"fmt"
	"math/rand"
	"sort"
	"time"

	cs "github.com/tendermint/tendermint/consensus"
	cstypes "github.com/tendermint/tendermint/consensus/types"
	"github.com/tendermint/tendermint/crypto"
	"github.com/tendermint/tendermint/libs/bits"
	"github.com/tendermint/tendermint/p2p"
	tmproto "github.com/tendermint/tendermint/proto/tendermint/types"
	"github.com/tendermint/tendermint/types"

	"verif/chaingen"
)

// Envelope is a message in flight to a correct node.
type Envelope struct {
	From int // validator index of the sender (correct or faulty), -1 = gossip layer
	To   int
	Msg  cs.Message
}

// KnownBlock is a block some proposer (correct or faulty) put on the wire.
type KnownBlock struct {
	Height   int64
	Round    int32
	Block    *types.Block
	Parts    *types.PartSet
	BlockID  types.BlockID
	ByFaulty bool
	Invalid  string // non-empty if deliberately invalid
}

type Net struct {
	ChainID  string
	GenDoc   *types.GenesisDoc
	Keys     []crypto.PrivKey // by genesis index
	AddrIdx  map[string]int   // validator address -> genesis index
	Nodes    map[int]*Node    // correct validators
	Order    []int            // sorted correct indexes
	Faulty   []int
	IsFaulty map[int]bool
	InFlight []*Envelope
	Step     int
	R        *rand.Rand
	Trace    []string
	TraceOn  bool
	Known    map[string]*KnownBlock // by block hash (string of bytes)
	KnownAt  map[int64][]*KnownBlock
	Part     map[int]int // partition side per node (0 = none)
	PartOn   bool
	Stats    map[string]int
	OnDecide func(n *Node, h int64)
	// OnSign is called right after a node released a signature (from Pump).
	Synchronous bool
	JournalOn   bool // keep per-node delivery journals (needed by AuditVotes)

	gossipSent map[[2]int]map[string]bool
	gossipCtx  map[[2]int]string
	curSent    map[string]bool
	stopAt     int64
}

type NetOpt struct {
	Seed              int64
	Powers            []int64
	Faulty            []int // genesis indexes without a node (keys held by the adversary)
	SkipTimeoutCommit bool
	InitialHeight     int64
	NodeOpt           func(idx int) NodeOpt
	PowerBumps        bool // correct nodes occasionally propose a power increase for a correct validator
}

func NewNet(r *rand.Rand, opt NetOpt) *Net {
	n := &Net{ChainID: "sim-chain", R: r, Nodes: map[int]*Node{}, IsFaulty: map[int]bool{}, AddrIdx: map[string]int{},
		Known: map[string]*KnownBlock{}, KnownAt: map[int64][]*KnownBlock{}, Part: map[int]int{}, Stats: map[string]int{}}
	gvals := make([]types.GenesisValidator, len(opt.Powers))
	for i, p := range opt.Powers {
		k := chaingen.Key(opt.Seed, i)
		n.Keys = append(n.Keys, k)
		n.AddrIdx[string(k.PubKey().Address())] = i
		gvals[i] = types.GenesisValidator{Address: k.PubKey().Address(), PubKey: k.PubKey(), Power: p, Name: fmt.Sprintf("v%d", i)}
	}
	ih := opt.InitialHeight
	if ih == 0 {
		ih = 1
	}
	// The simulation decides heights far faster than real time.  With the default time_iota_ms (1000) every
	// height pushes the block time a full second ahead, block time overtakes the wall clock that correct
	// nodes stamp their votes with, and the premise of C03 ("clocks are not behind the time of the latest
	// block") is broken by the harness itself; 1 ms keeps chain time behind the wall clock.
	params := types.DefaultConsensusParams()
	params.Block.TimeIotaMs = 1
	n.GenDoc = &types.GenesisDoc{GenesisTime: time.Now().Add(-time.Hour).UTC(), ChainID: n.ChainID, InitialHeight: ih,
		ConsensusParams: params, Validators: gvals}
	if err := n.GenDoc.ValidateAndComplete(); err != nil {
		panic(err)
	}
	for _, f := range opt.Faulty {
		n.IsFaulty[f] = true
	}
	n.Faulty = append([]int{}, opt.Faulty...)
	for i := range opt.Powers {
		if n.IsFaulty[i] {
			continue
		}
		no := NodeOpt{SkipTimeoutCommit: opt.SkipTimeoutCommit}
		if opt.NodeOpt != nil {
			no = opt.NodeOpt(i)
		}
		no.Clock = func() int { return n.Step }
		if opt.PowerBumps && no.Txs == nil {
			idx := i
			no.Txs = func(node, call int) types.Txs {
				txs := types.Txs{types.Tx(fmt.Sprintf("n%d-c%d=x", node, call))}
				if call%3 == 0 {
					// bump a correct validator's power: the faulty fraction only shrinks
					txs = append(txs, chaingen.ValTx(chaingen.Key(opt.Seed, idx), opt.Powers[idx]+int64(call)))
				}
				return txs
			}
		}
		n.Nodes[i] = NewNode(i, n.GenDoc, n.Keys[i], no)
		n.Order = append(n.Order, i)
	}
	sort.Ints(n.Order)
	return n
}

func (n *Net) Close() {
	for _, nd := range n.Nodes {
		nd.Close()
	}
}

func (n *Net) tr(format string, a ...interface{}) {
	if n.TraceOn || len(n.Trace) < 400 {
		n.Trace = append(n.Trace, fmt.Sprintf("%d: ", n.Step)+fmt.Sprintf(format, a...))
	}
}

// Start schedules round 0 on every node.
func (n *Net) Start() {
	for _, i := range n.Order {
		n.Nodes[i].CS.VerifStart()
	}
}

func peerID(from int) p2p.ID { return p2p.ID(fmt.Sprintf("v%d", from)) }

func partRoot(p *types.Part) string { return hex.EncodeToString(p.Proof.ComputeRootHash()) }

func describe(m cs.Message) string {
	switch x := m.(type) {
	case *cs.ProposalMessage:
		return fmt.Sprintf("Proposal{%d/%d pol=%d %X}", x.Proposal.Height, x.Proposal.Round, x.Proposal.POLRound, short(x.Proposal.BlockID.Hash))
	case *cs.BlockPartMessage:
		return fmt.Sprintf("Part{%d/%d #%d}", x.Height, x.Round, x.Part.Index)
	case *cs.VoteMessage:
		v := x.Vote
		t := "PV"
		if v.Type == tmproto.PrecommitType {
			t = "PC"
		}
		return fmt.Sprintf("%s{%d/%d v%d %X}", t, v.Height, v.Round, v.ValidatorIndex, short(v.BlockID.Hash))
	}
	return fmt.Sprintf("%T", m)
}

func short(b []byte) []byte {
	if len(b) > 3 {
		return b[:3]
	}
	return b
}

func (n *Net) journal(nd *Node, m cs.Message, internal bool) {
	if !n.JournalOn {
		nd.Journal = append(nd.Journal[:0], Delivered{})
		return
	}
	d := Delivered{Step: n.Step, AtHeight: nd.Height(), Internal: internal}
	switch x := m.(type) {
	case *cs.ProposalMessage:
		d.Kind, d.Proposal = "proposal", x.Proposal
	case *cs.BlockPartMessage:
		d.Kind, d.PartRoot, d.PartIdx = "part", partRoot(x.Part), x.Part.Index
		d.AtHeight = nd.Height()
		if x.Height != nd.Height() {
			d.Kind = "part-other-height"
		}
	case *cs.VoteMessage:
		d.Kind, d.Vote = "vote", x.Vote
	}
	nd.Journal = append(nd.Journal, d)
}

// Pump drains every node's internal queue (own proposals, parts, votes),
// relaying each message to all other correct nodes, until all are empty.
func (n *Net) Pump() {
	for progress := true; progress; {
		progress = false
		for _, i := range n.Order {
			nd := n.Nodes[i]
			for nd.Halted == "" && nd.CS.VerifInternalLen() > 0 {
				// journal first: the message is handled inside VerifDeliverInternal
				before := len(nd.Journal)
				_ = before
				msg, ok := n.deliverInternal(nd)
				if !ok {
					break
				}
				progress = true
				n.noteOwn(nd, msg)
				for _, j := range n.Order {
					if j != i {
						n.InFlight = append(n.InFlight, &Envelope{From: i, To: j, Msg: msg})
					}
				}
			}
			nd.CS.VerifDrainStats()
		}
	}
	n.afterStep()
}

func (n *Net) deliverInternal(nd *Node) (cs.Message, bool) {
	// We cannot peek the queue, so journal after the fact with the pre-height.
	if nd.Halted != "" {
		return nil, false
	}
	h := nd.Height()
	var msg cs.Message
	var ok bool
	n.guard(nd, func() { msg, ok = nd.CS.VerifDeliverInternal() })
	if !ok || nd.Halted != "" {
		return nil, false
	}
	n.journal(nd, msg, true)
	d := len(nd.Journal) - 1
	nd.Journal[d].AtHeight = h
	if nd.Journal[d].Kind == "part-other-height" {
		if bp, ok := msg.(*cs.BlockPartMessage); ok && bp.Height == h {
			nd.Journal[d].Kind = "part"
		}
	}
	n.tr("n%d own %s", nd.Idx, describe(msg))
	return msg, true
}

// noteOwn registers blocks proposed by correct nodes.
func (n *Net) noteOwn(nd *Node, msg cs.Message) {
	if pm, ok := msg.(*cs.ProposalMessage); ok {
		rs := nd.CS.GetRoundState()
		// after handling its own proposal + parts the node holds the block; it may not be complete yet here,
		// so register lazily from ValidBlock / the proposer's own creation.
		_ = rs
		key := string(pm.Proposal.BlockID.Hash)
		if _, ok := n.Known[key]; !ok {
			kb := &KnownBlock{Height: pm.Proposal.Height, Round: pm.Proposal.Round, BlockID: pm.Proposal.BlockID}
			n.Known[key] = kb
			n.KnownAt[kb.Height] = append(n.KnownAt[kb.Height], kb)
		}
	}
	if bp, ok := msg.(*cs.BlockPartMessage); ok {
		rs := nd.CS.GetRoundState()
		if rs.ProposalBlockParts != nil && rs.ProposalBlockParts.IsComplete() && rs.ProposalBlock != nil {
			key := string(rs.ProposalBlock.Hash())
			if kb, ok := n.Known[key]; ok && kb.Block == nil {
				kb.Block, kb.Parts = rs.ProposalBlock, rs.ProposalBlockParts
			}
		}
		_ = bp
	}
}

// guard runs one receiveRoutine arm; a panic halts the node like the
// "CONSENSUS FAILURE" recover in receiveRoutine does.
func (n *Net) guard(nd *Node, f func()) {
	defer func() {
		if r := recover(); r != nil {
			nd.Halted = fmt.Sprint(r)
			n.Stats["consensus_panics"]++
			n.tr("n%d CONSENSUS FAILURE: %v", nd.Idx, r)
		}
	}()
	f()
}

// Halted returns the correct nodes that stopped on a consensus panic.
func (n *Net) HaltedNodes() map[int]string {
	out := map[int]string{}
	for _, i := range n.Order {
		if n.Nodes[i].Halted != "" {
			out[i] = n.Nodes[i].Halted
		}
	}
	return out
}

// Deliver hands an envelope to its destination (as the reactor would, after ValidateBasic).
func (n *Net) Deliver(e *Envelope) {
	nd := n.Nodes[e.To]
	if nd == nil {
		return
	}
	if v, ok := e.Msg.(interface{ ValidateBasic() error }); ok {
		if err := v.ValidateBasic(); err != nil {
			n.Stats["dropped_by_validate_basic"]++
			return
		}
	}
	if nd.Halted != "" {
		return
	}
	n.Step++
	n.journal(nd, e.Msg, false)
	n.tr("n%d <- v%d %s", e.To, e.From, describe(e.Msg))
	n.guard(nd, func() { nd.CS.VerifDeliverPeer(e.Msg, peerID(e.From)) })
	n.Stats["delivered"]++
	n.Pump()
}

// FireTimeout fires the pending timeout of a node.
func (n *Net) FireTimeout(i int) bool {
	nd := n.Nodes[i]
	if nd.Halted != "" {
		return false
	}
	n.Step++
	var to cs.VerifTimeout
	var ok bool
	n.guard(nd, func() { to, ok = nd.CS.VerifFireTimeout() })
	if !ok {
		return false
	}
	n.tr("n%d timeout %d/%d %v", i, to.Height, to.Round, to.Step)
	n.Stats["timeouts"]++
	n.Pump()
	return true
}

// afterStep audits newly decided heights.
func (n *Net) afterStep() {
	for _, i := range n.Order {
		nd := n.Nodes[i]
		for nd.Blocks.Height() > nd.Decided {
			h := nd.Decided + 1
			if nd.Decided == 0 {
				h = nd.Blocks.Base()
				if h == 0 {
					break
				}
			}
			nd.Decided = h
			// record the state the next height starts from
			st := nd.CS.GetState()
			if st.LastBlockHeight == h {
				nd.PreState[h+1] = st.Copy()
			}
			n.Stats["decisions"]++
			if n.OnDecide != nil {
				n.OnDecide(nd, h)
			}
		}
	}
}

// ---- adversary helpers

// ValIndex returns the index of genesis validator g in the validator set vals (-1 if absent).
func (n *Net) ValIndex(vals *types.ValidatorSet, g int) int32 {
	idx, _ := vals.GetByAddress(n.Keys[g].PubKey().Address())
	return idx
}

// SignVote signs a vote with the key of genesis validator g.
func (n *Net) SignVote(vals *types.ValidatorSet, g int, typ tmproto.SignedMsgType, h int64, r int32, bid types.BlockID, ts time.Time) *types.Vote {
	idx := n.ValIndex(vals, g)
	v := &types.Vote{Type: typ, Height: h, Round: r, BlockID: bid, Timestamp: ts,
		ValidatorAddress: n.Keys[g].PubKey().Address(), ValidatorIndex: idx}
	pb := v.ToProto()
	sig, err := n.Keys[g].Sign(types.VoteSignBytes(n.ChainID, pb))
	if err != nil {
		panic(err)
	}
	v.Signature = sig
	return v
}

// ProposerAt returns the genesis index of the proposer of (node's height, round r).
func (n *Net) ProposerAt(nd *Node, r int32) int {
	rs := nd.CS.GetRoundState()
	vals := rs.Validators.Copy()
	if r > rs.Round {
		vals.IncrementProposerPriority(r - rs.Round)
	} else if r < rs.Round {
		st := nd.CS.GetState()
		vals = st.Validators.Copy()
		if r > 0 {
			vals.IncrementProposerPriority(r)
		}
	}
	return n.AddrIdx[string(vals.GetProposer().Address)]
}

// ByzBlock builds a block for nd's current height proposed by faulty validator g.
// variant makes distinct blocks; invalid != "" perturbs one validity-relevant field.
func (n *Net) ByzBlock(nd *Node, g int, round int32, variant int, invalid string) *KnownBlock {
	st := nd.CS.GetState()
	rs := nd.CS.GetRoundState()
	h := rs.Height
	var commit *types.Commit
	if h == st.InitialHeight {
		commit = types.NewCommit(0, 0, types.BlockID{}, nil)
	} else if rs.LastCommit != nil && rs.LastCommit.HasTwoThirdsMajority() {
		commit = rs.LastCommit.MakeCommit()
	} else {
		return nil
	}
	txs := types.Txs{types.Tx(fmt.Sprintf("byz%d-h%d-r%d-v%d=y", g, h, round, variant))}
	block, parts := st.MakeBlock(h, txs, commit, nil, n.Keys[g].PubKey().Address())
	switch invalid {
	case "":
	case "apphash":
		block.AppHash = []byte("wrong-app-hash-wrong-app-hash-00")
	case "time":
		block.Time = block.Time.Add(time.Hour)
	case "valhash":
		block.ValidatorsHash = make([]byte, 32)
	case "lastblockid":
		block.LastBlockID.Hash = make([]byte, 32)
	case "height":
		block.Height++
	case "proposer":
		block.ProposerAddress = make([]byte, 20)
	case "results":
		block.LastResultsHash = make([]byte, 32)
	}
	if invalid != "" {
		parts = block.MakePartSet(types.BlockPartSizeBytes)
	}
	kb := &KnownBlock{Height: h, Round: round, Block: block, Parts: parts, ByFaulty: true, Invalid: invalid,
		BlockID: types.BlockID{Hash: block.Hash(), PartSetHeader: parts.Header()}}
	if old, ok := n.Known[string(kb.BlockID.Hash)]; ok && old.Block != nil {
		return old
	}
	n.Known[string(kb.BlockID.Hash)] = kb
	n.KnownAt[h] = append(n.KnownAt[h], kb)
	return kb
}

// ProposalMsgs returns the proposal + part messages for a block signed by genesis validator g.
func (n *Net) ProposalMsgs(g int, kb *KnownBlock, h int64, round, polRound int32) []cs.Message {
	p := types.NewProposal(h, round, polRound, kb.BlockID)
	pb := p.ToProto()
	sig, err := n.Keys[g].Sign(types.ProposalSignBytes(n.ChainID, pb))
	if err != nil {
		panic(err)
	}
	p.Signature = sig
	out := []cs.Message{&cs.ProposalMessage{Proposal: p}}
	for i := 0; i < int(kb.Parts.Total()); i++ {
		out = append(out, &cs.BlockPartMessage{Height: h, Round: round, Part: kb.Parts.GetPart(i)})
	}
	return out
}

// Send puts messages in flight.
func (n *Net) Send(from, to int, msgs ...cs.Message) {
	for _, m := range msgs {
		n.InFlight = append(n.InFlight, &Envelope{From: from, To: to, Msg: m})
	}
}

// take removes and returns in-flight envelope k.
func (n *Net) take(k int) *Envelope {
	e := n.InFlight[k]
	n.InFlight[k] = n.InFlight[len(n.InFlight)-1]
	n.InFlight = n.InFlight[:len(n.InFlight)-1]
	return e
}

func (n *Net) crossesCut(e *Envelope) bool {
	if !n.PartOn || e.From < 0 || n.IsFaulty[e.From] {
		return false
	}
	return n.Part[e.From] != n.Part[e.To]
}

// MinHeight / MaxHeight over correct nodes (heights being worked on).
func (n *Net) MinMaxHeight() (int64, int64) {
	lo, hi := int64(1<<62), int64(0)
	for _, i := range n.Order {
		h := n.Nodes[i].Height()
		if h < lo {
			lo = h
		}
		if h > hi {
			hi = h
		}
	}
	return lo, hi
}

// RoundStateKey summarises a node for change detection.
func (n *Net) fingerprint() string {
	s := ""
	for _, i := range n.Order {
		rs := n.Nodes[i].CS.GetRoundState()
		np := 0
		if rs.ProposalBlockParts != nil {
			np = int(rs.ProposalBlockParts.Count())
		}
		nv := 0
		for r := int32(0); r <= rs.Round+1; r++ {
			if pv := rs.Votes.Prevotes(r); pv != nil {
				nv += popcount(pv.BitArray())
			}
			if pc := rs.Votes.Precommits(r); pc != nil {
				nv += popcount(pc.BitArray())
			}
		}
		lc := 0
		if rs.LastCommit != nil {
			lc = popcount(rs.LastCommit.BitArray())
		}
		s += fmt.Sprintf("%d/%d/%d p%v/%d v%d lc%d|", rs.Height, rs.Round, rs.Step, rs.Proposal != nil, np, nv, lc)
	}
	return s
}

var _ = cstypes.RoundStepCommit

func popcount(b *bits.BitArray) int {
	if b == nil {
		return 0
	}
	c := 0
	for i := 0; i < b.Size(); i++ {
		if b.GetIndex(i) {
			c++
		}
	}
	return c
}

// KeyOf returns the deterministic key of genesis validator i for a seed.
func KeyOf(seed int64, i int) crypto.PrivKey { return chaingen.Key(seed, i) }
