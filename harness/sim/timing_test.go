package sim

import (
	"math/rand"
	"testing"
	"time"
)

func TestTiming(t *testing.T) {
	for seed := int64(1); seed <= 12; seed++ {
		r := rand.New(rand.NewSource(seed))
		cfg := DrawConfig(r, seed > 8)
		n := NewNet(r, NetOpt{Seed: seed, Powers: cfg.Powers, Faulty: cfg.Faulty, SkipTimeoutCommit: cfg.Skip, InitialHeight: cfg.InitialH, PowerBumps: cfg.Bumps})
		t0 := time.Now()
		n.Start()
		n.Pump()
		n.AsyncRun(cfg.Steps)
		t1 := time.Now()
		_, hi := n.MinMaxHeight()
		res := n.RunSync(hi, 60, 3000, nil)
		t.Logf("seed %d cfg %+v async %v sync %v res %+v inflight %d stats %v", seed, cfg, t1.Sub(t0), time.Since(t1), res, len(n.InFlight), n.Stats)
		n.Close()
	}
}
