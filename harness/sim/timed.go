package sim

import (
	"sort"
	"time"

	cfg "github.com/tendermint/tendermint/config"
)

// Timed mode of the synchronous suffix (DESIGN.md C03): a discrete-event
// simulation on a virtual clock.  Every message between correct nodes takes a
// fixed delay Delta; a node's timeout fires at (virtual time at which the node
// scheduled it) + (the duration the node itself asked for).  This makes
// "timeouts grow with the round" observable: when Delta exceeds the base
// timeouts, early rounds fail and only rounds whose timeouts have grown past
// what a round needs can decide.

type tevent struct {
	at   time.Duration
	seq  int
	env  *Envelope // message delivery ...
	node int       // ... or timeout of this node (env == nil)
	gen  int       // ticker generation the timeout belongs to
}

// TimedConfig returns a consensus config whose timeouts grow noticeably per round.
func TimedConfig(skip bool) *cfg.ConsensusConfig {
	c := cfg.TestConsensusConfig()
	c.TimeoutPropose = 40 * time.Millisecond
	c.TimeoutProposeDelta = 40 * time.Millisecond
	c.TimeoutPrevote = 20 * time.Millisecond
	c.TimeoutPrevoteDelta = 40 * time.Millisecond
	c.TimeoutPrecommit = 20 * time.Millisecond
	c.TimeoutPrecommitDelta = 40 * time.Millisecond
	c.TimeoutCommit = 10 * time.Millisecond
	c.SkipTimeoutCommit = skip
	return c
}

// FirstSufficientRound computes, from the configured numbers only, the first
// round whose propose / prevote / precommit timeouts all exceed `need`.
func FirstSufficientRound(need time.Duration) int32 {
	for r := int32(0); r < 10000; r++ {
		p := 40*time.Millisecond + time.Duration(r)*40*time.Millisecond
		v := 20*time.Millisecond + time.Duration(r)*40*time.Millisecond
		if p > need && v > need {
			return r
		}
	}
	return 10000
}

// RunTimed runs the synchronous suffix on the virtual clock until every correct
// node has decided `target` or a node passes roundCap.  gossipEvery is the
// period of the idealised gossip layer; byz (may be nil) is called at every
// gossip tick.
func (n *Net) RunTimed(target int64, roundCap int32, delta, gossipEvery time.Duration, maxEvents int, byz func()) SyncResult {
	n.PartOn = false
	n.Synchronous = true
	res := SyncResult{}
	var q []tevent
	seq := 0
	now := time.Duration(0)
	push := func(e tevent) {
		seq++
		e.seq = seq
		q = append(q, e)
	}
	sched := map[int]int{} // node -> ticker generation already turned into an event
	// everything in flight at the synchrony point arrives within delta
	flush := func() {
		for _, e := range n.InFlight {
			push(tevent{at: now + delta, env: e})
		}
		n.InFlight = n.InFlight[:0]
		for _, i := range n.Order {
			nd := n.Nodes[i]
			g := nd.Ticker.Scheduled()
			if g != sched[i] {
				sched[i] = g
				if t, ok := nd.Ticker.Pending(); ok {
					d := t.Duration
					if d < 0 {
						d = 0
					}
					push(tevent{at: now + d, node: i, gen: g})
				}
			}
		}
	}
	n.Gossip()
	flush()
	nextGossip := gossipEvery
	for ev := 0; ev < maxEvents; ev++ {
		done := true
		for _, i := range n.Order {
			nd := n.Nodes[i]
			rs := nd.CS.GetRoundState()
			if rs.Height == target && rs.Round > res.MaxRound {
				res.MaxRound = rs.Round
			}
			if nd.Blocks.Height() < target {
				done = false
			}
		}
		if done {
			res.Decided = true
			res.Iter = ev
			return res
		}
		if len(n.HaltedNodes()) > 0 {
			res.Halted = true
			return res
		}
		if res.MaxRound > roundCap {
			res.Iter = ev
			return res
		}
		// next event or gossip tick, whichever is earlier
		sort.Slice(q, func(a, b int) bool {
			if q[a].at != q[b].at {
				return q[a].at < q[b].at
			}
			return q[a].seq < q[b].seq
		})
		if len(q) == 0 || q[0].at > nextGossip {
			now = nextGossip
			nextGossip += gossipEvery
			if byz != nil {
				byz()
			}
			n.Gossip()
			flush()
			if len(q) == 0 {
				// nothing scheduled at all: is anything ever going to happen?
				if n.PendingMin() < 0 {
					res.Wedged = true
					return res
				}
			}
			continue
		}
		e := q[0]
		q = q[1:]
		now = e.at
		if e.env != nil {
			n.Deliver(e.env)
		} else {
			nd := n.Nodes[e.node]
			// fire only if this is still the timeout the node is waiting for
			if nd.Ticker.Scheduled() == e.gen {
				n.FireTimeout(e.node)
			}
		}
		flush()
	}
	res.Budget = true
	return res
}
