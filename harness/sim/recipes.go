package sim

import (
	"fmt"
	"time"

	cs "github.com/tendermint/tendermint/consensus"
	cstypes "github.com/tendermint/tendermint/consensus/types"
	tmproto "github.com/tendermint/tendermint/proto/tendermint/types"
	"github.com/tendermint/tendermint/types"
)

// Recipes are scripted adversary strategies for executions that random
// scheduling practically never produces (DESIGN.md 2.3).  They only use moves
// the asynchronous adversary is allowed: choose which in-flight message to
// deliver next, fire timeouts, and sign with the faulty validators' keys.

// DeliverWhere delivers, repeatedly, every in-flight envelope matching pred
// (deliveries can put more matching envelopes in flight); at most max deliveries.
func (n *Net) DeliverWhere(max int, pred func(e *Envelope) bool) int {
	cnt := 0
	for again := true; again && cnt < max; {
		again = false
		for k := 0; k < len(n.InFlight) && cnt < max; k++ {
			e := n.InFlight[k]
			if pred(e) {
				n.InFlight = append(n.InFlight[:k], n.InFlight[k+1:]...)
				n.Deliver(e)
				cnt++
				again = true
				break
			}
		}
	}
	return cnt
}

func isVote(e *Envelope, typ tmproto.SignedMsgType) (*types.Vote, bool) {
	vm, ok := e.Msg.(*cs.VoteMessage)
	if !ok || vm.Vote.Type != typ {
		return nil, false
	}
	return vm.Vote, true
}

func isProposalOrPart(e *Envelope) bool {
	switch e.Msg.(type) {
	case *cs.ProposalMessage, *cs.BlockPartMessage:
		return true
	}
	return false
}

func in(set []int, x int) bool {
	for _, y := range set {
		if x == y {
			return true
		}
	}
	return false
}

// AllAt drives every correct node to (height h, round r, step >= Propose) by
// firing pending NewHeight/NewRound timeouts only.  Returns false if some node
// cannot be brought there that way.
func (n *Net) startRound(h int64) bool {
	for iter := 0; iter < 50; iter++ {
		ok := true
		for _, i := range n.Order {
			rs := n.Nodes[i].CS.GetRoundState()
			if rs.Height != h {
				return false
			}
			if rs.Step < cstypes.RoundStepPropose {
				ok = false
				if t, p := n.Nodes[i].Ticker.Pending(); p && t.Height == h && (t.Step == cstypes.RoundStepNewHeight || t.Step == cstypes.RoundStepNewRound) {
					n.FireTimeout(i)
				}
			}
		}
		if ok {
			return true
		}
	}
	return false
}

// RecipeSplitLock tries to leave a minority S locked on block B from round r
// while the other correct nodes lock a competing block B' in a later round.
// Returns a short label of how far it got (for coverage accounting).
func (n *Net) RecipeSplitLock() string {
	if len(n.Faulty) == 0 || len(n.Order) < 3 {
		return "n/a"
	}
	r := n.R
	lo, hi := n.MinMaxHeight()
	if lo != hi {
		return "heights-differ"
	}
	h := hi
	if !n.startRound(h) {
		return "cannot-start-round"
	}
	// S = one correct node (a minority)
	S := []int{n.Order[r.Intn(len(n.Order))]}
	rest := []int{}
	for _, i := range n.Order {
		if !in(S, i) {
			rest = append(rest, i)
		}
	}
	rs0 := n.Nodes[S[0]].CS.GetRoundState()
	round := rs0.Round
	for _, i := range n.Order {
		if n.Nodes[i].CS.GetRoundState().Round != round {
			return "rounds-differ"
		}
	}
	prop := n.ProposerAt(n.Nodes[S[0]], round)
	var bid types.BlockID
	if n.IsFaulty[prop] {
		kb := n.ByzBlock(n.Nodes[S[0]], prop, round, 7, "")
		if kb == nil {
			return "byz-cannot-build"
		}
		msgs := n.ProposalMsgs(prop, kb, h, round, -1)
		for _, i := range n.Order {
			n.Send(prop, i, msgs...)
		}
		bid = kb.BlockID
	}
	// 1. everybody gets the proposal and its parts
	n.DeliverWhere(2000, func(e *Envelope) bool { return isProposalOrPart(e) })
	rsS := n.Nodes[S[0]].CS.GetRoundState()
	if rsS.ProposalBlock == nil {
		return "no-proposal-block"
	}
	bid = types.BlockID{Hash: rsS.ProposalBlock.Hash(), PartSetHeader: rsS.ProposalBlockParts.Header()}
	vals := rsS.Validators
	now := time.Now()
	// 2. faulty validators prevote B towards S only, nil towards the rest
	for _, g := range n.Faulty {
		if n.ValIndex(vals, g) < 0 {
			continue
		}
		vb := n.SignVote(vals, g, tmproto.PrevoteType, h, round, bid, now)
		vn := n.SignVote(vals, g, tmproto.PrevoteType, h, round, types.BlockID{}, now)
		for _, i := range S {
			n.Send(g, i, &cs.VoteMessage{Vote: vb})
		}
		for _, i := range rest {
			n.Send(g, i, &cs.VoteMessage{Vote: vn})
		}
	}
	// 3. S sees every prevote (polka for B) and precommits B
	n.DeliverWhere(2000, func(e *Envelope) bool {
		v, ok := isVote(e, tmproto.PrevoteType)
		return ok && in(S, e.To) && v.Height == h && v.Round == round
	})
	locked := n.Nodes[S[0]].CS.GetRoundState().LockedBlock != nil
	if !locked {
		return "S-not-locked"
	}
	// 4. the rest see 2/3-any but not a polka: deliver the faulty nil prevotes and prevotes of `rest` members only
	n.DeliverWhere(2000, func(e *Envelope) bool {
		v, ok := isVote(e, tmproto.PrevoteType)
		if !ok || !in(rest, e.To) || v.Height != h || v.Round != round {
			return false
		}
		return e.From < 0 || n.IsFaulty[e.From] || in(rest, e.From)
	})
	// prevote-wait timeouts at the rest -> precommit nil
	for _, i := range rest {
		rs := n.Nodes[i].CS.GetRoundState()
		if rs.Step == cstypes.RoundStepPrevoteWait || rs.Step == cstypes.RoundStepPrevote {
			n.FireTimeout(i)
		}
	}
	// 5. faulty precommit nil to all; all precommits delivered -> 2/3 any -> precommit wait -> next round
	for _, g := range n.Faulty {
		if n.ValIndex(vals, g) < 0 {
			continue
		}
		vn := n.SignVote(vals, g, tmproto.PrecommitType, h, round, types.BlockID{}, now)
		for _, i := range n.Order {
			n.Send(g, i, &cs.VoteMessage{Vote: vn})
		}
	}
	n.DeliverWhere(4000, func(e *Envelope) bool {
		v, ok := isVote(e, tmproto.PrecommitType)
		return ok && v.Height == h && v.Round == round
	})
	for _, i := range n.Order {
		rs := n.Nodes[i].CS.GetRoundState()
		// enterPrecommitWait does not change the step; it only schedules the timeout
		if t, p := n.Nodes[i].Ticker.Pending(); p && rs.Height == h && rs.Round == round && t.Height == h && t.Round == round && t.Step == cstypes.RoundStepPrecommitWait {
			n.FireTimeout(i)
		}
	}
	for _, i := range n.Order {
		rs := n.Nodes[i].CS.GetRoundState()
		if rs.Height != h || rs.Round != round+1 {
			return "no-next-round"
		}
	}
	// 6. next round: a competing block reaches the rest (from its proposer if correct and unlocked, else from a faulty proposer)
	round++
	if !n.startRound(h) {
		return "cannot-start-round2"
	}
	prop2 := n.ProposerAt(n.Nodes[rest[0]], round)
	if n.IsFaulty[prop2] {
		kb := n.ByzBlock(n.Nodes[rest[0]], prop2, round, 9, "")
		if kb != nil {
			msgs := n.ProposalMsgs(prop2, kb, h, round, -1)
			for _, i := range n.Order {
				n.Send(prop2, i, msgs...)
			}
		}
	}
	n.DeliverWhere(2000, func(e *Envelope) bool { return isProposalOrPart(e) })
	rs2 := n.Nodes[rest[0]].CS.GetRoundState()
	if rs2.ProposalBlock == nil {
		return "S-locked-only"
	}
	bid2 := types.BlockID{Hash: rs2.ProposalBlock.Hash(), PartSetHeader: rs2.ProposalBlockParts.Header()}
	if string(bid2.Hash) == string(bid.Hash) {
		return "S-locked-reproposed-same"
	}
	// faulty prevote B' to the rest; the rest exchange prevotes among themselves
	for _, g := range n.Faulty {
		if n.ValIndex(rs2.Validators, g) < 0 {
			continue
		}
		vb := n.SignVote(rs2.Validators, g, tmproto.PrevoteType, h, round, bid2, now)
		for _, i := range rest {
			n.Send(g, i, &cs.VoteMessage{Vote: vb})
		}
	}
	n.DeliverWhere(4000, func(e *Envelope) bool {
		v, ok := isVote(e, tmproto.PrevoteType)
		return ok && in(rest, e.To) && v.Height == h && v.Round == round
	})
	split := false
	for _, i := range rest {
		rs := n.Nodes[i].CS.GetRoundState()
		if rs.LockedBlock != nil && string(rs.LockedBlock.Hash()) == string(bid2.Hash) {
			split = true
		}
	}
	if split && n.Nodes[S[0]].CS.GetRoundState().LockedBlock != nil {
		if r.Intn(3) > 0 {
			return "split-locks" + n.lateEquivocalPolka(S[0], rest, h, round, bid2, rs2.Validators)
		}
		return "split-locks"
	}
	return "S-locked-only"
}

// lateEquivocalPolka continues a split-lock prefix: in the round in which the
// rest locked B', the faulty validators had shown S a different prevote (nil);
// S sees the rest's prevotes for B' (not yet a polka), times out and precommits
// nil.  Only then does a peer's majority claim for B' arrive at S, followed by
// the faulty validators' prevotes for B' - conflicting votes, admitted because of
// the claim - which complete the polka for B' at S.  S must treat it like any
// other polka of a round later than its lock (unlock).
func (n *Net) lateEquivocalPolka(s int, rest []int, h int64, round int32, bid2 types.BlockID, vals *types.ValidatorSet) string {
	now := time.Now()
	nd := n.Nodes[s]
	if rs := nd.CS.GetRoundState(); rs.Height != h || rs.Round != round {
		return "+late-polka:n/a"
	}
	for _, g := range n.Faulty {
		if n.ValIndex(vals, g) < 0 {
			continue
		}
		vn := n.SignVote(vals, g, tmproto.PrevoteType, h, round, types.BlockID{}, now)
		n.Send(g, s, &cs.VoteMessage{Vote: vn})
	}
	// S: own prevote (its lock), the faulty nil prevotes, the rest's prevotes for B'
	if rs := nd.CS.GetRoundState(); rs.Step == cstypes.RoundStepPropose {
		n.FireTimeout(s)
	}
	n.DeliverWhere(4000, func(e *Envelope) bool {
		v, ok := isVote(e, tmproto.PrevoteType)
		return ok && e.To == s && v.Height == h && v.Round == round
	})
	if _, ok := nd.CS.GetRoundState().Votes.Prevotes(round).TwoThirdsMajority(); ok {
		return "+late-polka:rest-alone-is-a-polka"
	}
	if t, p := nd.Ticker.Pending(); p && t.Round == round && t.Step == cstypes.RoundStepPrevoteWait {
		n.FireTimeout(s)
	}
	rs := nd.CS.GetRoundState()
	if rs.Step < cstypes.RoundStepPrecommit || rs.LockedBlock == nil {
		return "+late-polka:S-did-not-precommit"
	}
	// the claim, then the conflicting prevotes that complete the polka
	_ = nd.CS.VerifVotes().SetPeerMaj23(round, tmproto.PrevoteType, peerID(rest[0]), bid2)
	for _, g := range n.Faulty {
		if n.ValIndex(vals, g) < 0 {
			continue
		}
		vb := n.SignVote(vals, g, tmproto.PrevoteType, h, round, bid2, now)
		n.Deliver(&Envelope{From: rest[0], To: s, Msg: &cs.VoteMessage{Vote: vb}})
	}
	rs = nd.CS.GetRoundState()
	_, polka := rs.Votes.Prevotes(round).TwoThirdsMajority()
	return fmt.Sprintf("+late-polka(polka-at-S=%v,S-still-locked=%v)", polka, rs.LockedBlock != nil)
}

// RecipeCommitWithoutBlock makes one correct node learn +2/3 precommits for a
// block whose proposal and parts it never received.
func (n *Net) RecipeCommitWithoutBlock() string {
	if len(n.Order) < 3 {
		return "n/a"
	}
	lo, hi := n.MinMaxHeight()
	if lo != hi {
		return "heights-differ"
	}
	h := hi
	if !n.startRound(h) {
		return "cannot-start-round"
	}
	victim := n.Order[n.R.Intn(len(n.Order))]
	round := n.Nodes[victim].CS.GetRoundState().Round
	prop := n.ProposerAt(n.Nodes[victim], round)
	if prop == victim {
		return "victim-is-proposer"
	}
	if n.IsFaulty[prop] {
		var src *Node
		for _, i := range n.Order {
			if i != victim {
				src = n.Nodes[i]
			}
		}
		kb := n.ByzBlock(src, prop, round, 3, "")
		if kb == nil {
			return "byz-cannot-build"
		}
		msgs := n.ProposalMsgs(prop, kb, h, round, -1)
		for _, i := range n.Order {
			if i != victim {
				n.Send(prop, i, msgs...)
			}
		}
	}
	// proposal and parts to everybody but the victim; all votes to everybody
	helped := false
	for iter := 0; iter < 6; iter++ {
		if !helped && iter > 0 {
			// the faulty validators back whatever block the others hold, so that it can be decided without the victim
			for _, i := range n.Order {
				if i == victim {
					continue
				}
				rsx := n.Nodes[i].CS.GetRoundState()
				if rsx.Height == h && rsx.ProposalBlock != nil && rsx.ProposalBlockParts != nil {
					bid := types.BlockID{Hash: rsx.ProposalBlock.Hash(), PartSetHeader: rsx.ProposalBlockParts.Header()}
					for _, g := range n.Faulty {
						if n.ValIndex(rsx.Validators, g) < 0 {
							continue
						}
						pv := n.SignVote(rsx.Validators, g, tmproto.PrevoteType, h, rsx.Round, bid, time.Now())
						pc := n.SignVote(rsx.Validators, g, tmproto.PrecommitType, h, rsx.Round, bid, time.Now())
						for _, j := range n.Order {
							n.Send(g, j, &cs.VoteMessage{Vote: pv}, &cs.VoteMessage{Vote: pc})
						}
					}
					helped = true
					break
				}
			}
		}
		n.DeliverWhere(4000, func(e *Envelope) bool {
			if isProposalOrPart(e) {
				return e.To != victim
			}
			if vm, ok := e.Msg.(*cs.VoteMessage); ok {
				return vm.Vote.Height == h
			}
			return false
		})
		// the victim has no proposal: propose timeout -> prevote nil
		rs := n.Nodes[victim].CS.GetRoundState()
		if rs.Height == h && rs.Step == cstypes.RoundStepPropose {
			n.FireTimeout(victim)
		}
	}
	rs := n.Nodes[victim].CS.GetRoundState()
	if rs.Height == h && rs.Step == cstypes.RoundStepCommit && rs.ProposalBlock == nil {
		// The victim knows the decision but neither the proposal nor the block.  A faulty proposer of the
		// victim's round may now show it a validly signed proposal for a DIFFERENT block before the parts of
		// the decided block arrive; the decided block's parts must still be accepted afterwards.
		if p := n.ProposerAt(n.Nodes[victim], rs.Round); n.IsFaulty[p] && n.R.Intn(3) > 0 {
			var src *Node
			for _, i := range n.Order {
				if i != victim && n.Nodes[i].CS.GetRoundState().Height == h {
					src = n.Nodes[i]
				}
			}
			if src == nil {
				src = n.Nodes[victim]
			}
			if kb := n.ByzBlock(src, p, rs.Round, 40+n.R.Intn(4), ""); kb != nil && string(kb.BlockID.Hash) != string(rs.ProposalBlockParts.Header().Hash) {
				n.Send(p, victim, n.ProposalMsgs(p, kb, h, rs.Round, -1)...)
				n.DeliverWhere(200, func(e *Envelope) bool { return e.To == victim && isProposalOrPart(e) })
				return "commit-without-block+other-proposal"
			}
		}
		return "commit-without-block"
	}
	if rs.Height > h {
		return "victim-decided"
	}
	return "no-commit-seen"
}

// RecipeFork is the control recipe: with faulty power >= 1/3 (and, here, enough
// to form a quorum with any single correct node) the adversary makes two
// correct nodes decide different blocks.  It demonstrates that the agreement
// monitor can see a fork; it is never used in the deciding executions.
func (n *Net) RecipeFork() string {
	if len(n.Order) < 2 || len(n.Faulty) == 0 {
		return "n/a"
	}
	lo, hi := n.MinMaxHeight()
	if lo != hi {
		return "heights-differ"
	}
	h := hi
	now := time.Now()
	a, b := n.Order[0], n.Order[1]
	// isolate a and b from each other from now on
	n.PartOn = true
	for _, i := range n.Order {
		n.Part[i] = 3
	}
	n.Part[a], n.Part[b] = 1, 2
	n.InFlight = nil
	decideAt := func(target int, variant int) string {
		nd := n.Nodes[target]
		for iter := 0; iter < 60; iter++ {
			if nd.Blocks.Height() >= h {
				return "decided"
			}
			if !n.startRoundOne(target, h) {
				return "cannot-start"
			}
			rs := nd.CS.GetRoundState()
			round := rs.Round
			prop := n.ProposerAt(nd, round)
			if prop == target && rs.ProposalBlock != nil && rs.ProposalBlockParts.IsComplete() {
				// the isolated node proposed itself: the faulty validators simply back its block
				bid := types.BlockID{Hash: rs.ProposalBlock.Hash(), PartSetHeader: rs.ProposalBlockParts.Header()}
				for _, g := range n.Faulty {
					if n.ValIndex(rs.Validators, g) < 0 {
						continue
					}
					n.Send(g, target, &cs.VoteMessage{Vote: n.SignVote(rs.Validators, g, tmproto.PrevoteType, h, round, bid, now)})
					n.Send(g, target, &cs.VoteMessage{Vote: n.SignVote(rs.Validators, g, tmproto.PrecommitType, h, round, bid, now)})
				}
				n.DeliverWhere(4000, func(e *Envelope) bool { return e.To == target })
				continue
			}
			if !n.IsFaulty[prop] {
				// let the round pass: fire its timeouts
				for k := 0; k < 6; k++ {
					cur := nd.CS.GetRoundState()
					if cur.Round != round || cur.Height != h {
						break
					}
					// feed 2/3-any nil votes from the faulty validators so that the wait steps are entered
					for _, g := range n.Faulty {
						if n.ValIndex(cur.Validators, g) < 0 {
							continue
						}
						for _, typ := range []tmproto.SignedMsgType{tmproto.PrevoteType, tmproto.PrecommitType} {
							n.Send(g, target, &cs.VoteMessage{Vote: n.SignVote(cur.Validators, g, typ, h, round, types.BlockID{}, now)})
						}
					}
					n.DeliverWhere(1000, func(e *Envelope) bool { return e.To == target })
					n.FireTimeout(target)
				}
				continue
			}
			kb := n.ByzBlock(nd, prop, round, variant, "")
			if kb == nil {
				return "byz-cannot-build"
			}
			n.Send(prop, target, n.ProposalMsgs(prop, kb, h, round, -1)...)
			for _, g := range n.Faulty {
				if n.ValIndex(rs.Validators, g) < 0 {
					continue
				}
				n.Send(g, target, &cs.VoteMessage{Vote: n.SignVote(rs.Validators, g, tmproto.PrevoteType, h, round, kb.BlockID, now)})
				n.Send(g, target, &cs.VoteMessage{Vote: n.SignVote(rs.Validators, g, tmproto.PrecommitType, h, round, kb.BlockID, now)})
			}
			n.DeliverWhere(4000, func(e *Envelope) bool { return e.To == target })
		}
		return "gave-up"
	}
	ra := decideAt(a, 100)
	rb := decideAt(b, 200)
	return ra + "/" + rb
}

// startRoundOne brings one node to the propose step of its current round.
func (n *Net) startRoundOne(i int, h int64) bool {
	for iter := 0; iter < 10; iter++ {
		rs := n.Nodes[i].CS.GetRoundState()
		if rs.Height != h {
			return false
		}
		if rs.Step >= cstypes.RoundStepPropose {
			return true
		}
		if t, p := n.Nodes[i].Ticker.Pending(); p && t.Height == h && (t.Step == cstypes.RoundStepNewHeight || t.Step == cstypes.RoundStepNewRound) {
			n.FireTimeout(i)
		} else {
			return false
		}
	}
	return false
}

// ForgedPOL picks the POL round a faulty proposer of `round` claims for a fresh block:
// none, or any round from lo (a round in which correct nodes locked something else) up to round-1.
func (n *Net) ForgedPOL(lo, round int32) int32 {
	if round <= lo || n.R.Intn(2) == 0 {
		return -1
	}
	return lo + int32(n.R.Intn(int(round-lo)))
}

// RecipeLockAttack is the classical attack on the locking rule: two correct
// nodes A1, A2 lock and precommit B in round r; together with the faulty
// precommits A1 decides B, while A2 and the third correct node A3 never see
// those precommits and move to round r+1, where the faulty validators push a
// competing block B'.  With correct locking A2 prevotes B and B' cannot get a
// polka; if a locked node can be made to prevote B', the others decide B' and
// the agreement monitor sees a fork.
func (n *Net) RecipeLockAttack() string {
	if len(n.Faulty) == 0 || len(n.Order) < 3 {
		return "n/a"
	}
	lo, hi := n.MinMaxHeight()
	if lo != hi {
		return "heights-differ"
	}
	h := hi
	if !n.startRound(h) {
		return "cannot-start-round"
	}
	perm := n.R.Perm(len(n.Order))
	a1, a2 := n.Order[perm[0]], n.Order[perm[1]]
	var others []int
	for _, i := range n.Order {
		if i != a1 && i != a2 {
			others = append(others, i)
		}
	}
	lockers := []int{a1, a2}
	round := n.Nodes[a1].CS.GetRoundState().Round
	for _, i := range n.Order {
		if n.Nodes[i].CS.GetRoundState().Round != round {
			return "rounds-differ"
		}
	}
	prop := n.ProposerAt(n.Nodes[a1], round)
	if n.IsFaulty[prop] {
		kb := n.ByzBlock(n.Nodes[a1], prop, round, 11, "")
		if kb == nil {
			return "byz-cannot-build"
		}
		msgs := n.ProposalMsgs(prop, kb, h, round, -1)
		for _, i := range n.Order {
			n.Send(prop, i, msgs...)
		}
	}
	n.DeliverWhere(3000, func(e *Envelope) bool { return isProposalOrPart(e) })
	rs1 := n.Nodes[a1].CS.GetRoundState()
	if rs1.ProposalBlock == nil {
		return "no-proposal-block"
	}
	bid := types.BlockID{Hash: rs1.ProposalBlock.Hash(), PartSetHeader: rs1.ProposalBlockParts.Header()}
	vals := rs1.Validators
	now := time.Now()
	// faulty prevote B to the lockers, nil to the others
	for _, g := range n.Faulty {
		if n.ValIndex(vals, g) < 0 {
			continue
		}
		vb := n.SignVote(vals, g, tmproto.PrevoteType, h, round, bid, now)
		vn := n.SignVote(vals, g, tmproto.PrevoteType, h, round, types.BlockID{}, now)
		for _, i := range lockers {
			n.Send(g, i, &cs.VoteMessage{Vote: vb})
		}
		for _, i := range others {
			n.Send(g, i, &cs.VoteMessage{Vote: vn})
		}
	}
	// lockers see every prevote -> polka -> lock + precommit B
	n.DeliverWhere(4000, func(e *Envelope) bool {
		v, ok := isVote(e, tmproto.PrevoteType)
		return ok && in(lockers, e.To) && v.Height == h && v.Round == round
	})
	for _, i := range lockers {
		if n.Nodes[i].CS.GetRoundState().LockedBlock == nil {
			return "lockers-not-locked"
		}
	}
	// a1 alone gets the lockers' and the faulty precommits for B -> decides B
	for _, g := range n.Faulty {
		if n.ValIndex(vals, g) < 0 {
			continue
		}
		n.Send(g, a1, &cs.VoteMessage{Vote: n.SignVote(vals, g, tmproto.PrecommitType, h, round, bid, now)})
	}
	n.DeliverWhere(4000, func(e *Envelope) bool {
		v, ok := isVote(e, tmproto.PrecommitType)
		return ok && e.To == a1 && v.Height == h && v.Round == round && (in(lockers, e.From) || n.IsFaulty[e.From])
	})
	decided := n.Nodes[a1].Blocks.Height() >= h
	// the rest of the network never sees those precommits: drop what is in flight for round `round`
	rest := append([]int{a2}, others...)
	keep := n.InFlight[:0]
	for _, e := range n.InFlight {
		if vm, ok := e.Msg.(*cs.VoteMessage); ok && vm.Vote.Height == h && vm.Vote.Round == round && vm.Vote.Type == tmproto.PrecommitType && e.From == a1 {
			continue
		}
		keep = append(keep, e)
	}
	n.InFlight = keep
	// others: 2/3-any prevotes without a polka -> prevote wait -> precommit nil
	n.DeliverWhere(4000, func(e *Envelope) bool {
		v, ok := isVote(e, tmproto.PrevoteType)
		if !ok || !in(others, e.To) || v.Height != h || v.Round != round {
			return false
		}
		return n.IsFaulty[e.From] || in(others, e.From) || e.From == a2
	})
	for _, i := range others {
		rs := n.Nodes[i].CS.GetRoundState()
		if rs.Height == h && rs.Round == round && (rs.Step == cstypes.RoundStepPrevoteWait || rs.Step == cstypes.RoundStepPrevote) {
			n.FireTimeout(i)
		}
	}
	// faulty nil precommits to the rest; rest exchange their precommits (a2: B, others: nil) -> 2/3 any -> next round
	for _, g := range n.Faulty {
		if n.ValIndex(vals, g) < 0 {
			continue
		}
		vn := n.SignVote(vals, g, tmproto.PrecommitType, h, round, types.BlockID{}, now)
		for _, i := range rest {
			n.Send(g, i, &cs.VoteMessage{Vote: vn})
		}
	}
	// a2's precommit for B may be seen by the others (it is not enough for a commit)
	n.DeliverWhere(4000, func(e *Envelope) bool {
		v, ok := isVote(e, tmproto.PrecommitType)
		return ok && in(rest, e.To) && v.Height == h && v.Round == round && (in(rest, e.From) || n.IsFaulty[e.From])
	})
	for _, i := range rest {
		rs := n.Nodes[i].CS.GetRoundState()
		if t, p := n.Nodes[i].Ticker.Pending(); p && rs.Height == h && rs.Round == round && t.Height == h && t.Round == round && t.Step == cstypes.RoundStepPrecommitWait {
			n.FireTimeout(i)
		}
	}
	for _, i := range rest {
		rs := n.Nodes[i].CS.GetRoundState()
		if rs.Height != h || rs.Round != round+1 {
			if decided {
				return "a1-decided;no-next-round"
			}
			return "no-next-round"
		}
	}
	// rounds r+1 .. r+4: whenever a faulty validator or an unlocked correct node proposes, push its block B'
	// (a faulty proposer may claim any earlier round as the proposal's POL round: the lock round, whose polka was for B, included)
	lockRound := round
	for att := 0; att < 4; att++ {
		round++
		ok := true
		for _, i := range rest {
			rs := n.Nodes[i].CS.GetRoundState()
			if rs.Height != h || rs.Round != round {
				ok = false
			}
		}
		if !ok {
			break
		}
		for _, i := range rest {
			n.startRoundOne(i, h)
		}
		prop2 := n.ProposerAt(n.Nodes[rest[0]], round)
		if n.IsFaulty[prop2] {
			if kb := n.ByzBlock(n.Nodes[others[0]], prop2, round, 13+att, ""); kb != nil {
				msgs := n.ProposalMsgs(prop2, kb, h, round, n.ForgedPOL(lockRound, round))
				for _, i := range rest {
					n.Send(prop2, i, msgs...)
				}
			}
		}
		n.DeliverWhere(3000, func(e *Envelope) bool { return isProposalOrPart(e) && in(rest, e.To) })
		rs2 := n.Nodes[others[0]].CS.GetRoundState()
		if rs2.ProposalBlock != nil && string(rs2.ProposalBlock.Hash()) != string(bid.Hash) {
			bid2 := types.BlockID{Hash: rs2.ProposalBlock.Hash(), PartSetHeader: rs2.ProposalBlockParts.Header()}
			for _, g := range n.Faulty {
				if n.ValIndex(rs2.Validators, g) < 0 {
					continue
				}
				for _, i := range rest {
					n.Send(g, i, &cs.VoteMessage{Vote: n.SignVote(rs2.Validators, g, tmproto.PrevoteType, h, round, bid2, now)})
					n.Send(g, i, &cs.VoteMessage{Vote: n.SignVote(rs2.Validators, g, tmproto.PrecommitType, h, round, bid2, now)})
				}
			}
		} else {
			// nothing to push this round: the faulty validators vote nil so the round can pass
			for _, g := range n.Faulty {
				if n.ValIndex(rs2.Validators, g) < 0 {
					continue
				}
				for _, i := range rest {
					n.Send(g, i, &cs.VoteMessage{Vote: n.SignVote(rs2.Validators, g, tmproto.PrevoteType, h, round, types.BlockID{}, now)})
					n.Send(g, i, &cs.VoteMessage{Vote: n.SignVote(rs2.Validators, g, tmproto.PrecommitType, h, round, types.BlockID{}, now)})
				}
			}
		}
		for _, i := range rest {
			rs := n.Nodes[i].CS.GetRoundState()
			if rs.Height == h && rs.Round == round && rs.Step == cstypes.RoundStepPropose {
				n.FireTimeout(i)
			}
		}
		for k := 0; k < 3; k++ {
			n.DeliverWhere(6000, func(e *Envelope) bool {
				vm, ok := e.Msg.(*cs.VoteMessage)
				return ok && in(rest, e.To) && vm.Vote.Height == h && vm.Vote.Round == round && (in(rest, e.From) || n.IsFaulty[e.From])
			})
			for _, i := range rest {
				rs := n.Nodes[i].CS.GetRoundState()
				if t, p := n.Nodes[i].Ticker.Pending(); p && rs.Height == h && rs.Round == round && t.Round == round && (t.Step == cstypes.RoundStepPrevoteWait || t.Step == cstypes.RoundStepPrecommitWait) {
					n.FireTimeout(i)
				}
			}
		}
	}
	if decided {
		return "a1-decided-alone"
	}
	return "locked-pair"
}

// StartRoundOne is the exported form of startRoundOne.
func (n *Net) StartRoundOne(i int, h int64) bool { return n.startRoundOne(i, h) }

// RecipeRelockAttack targets the bookkeeping of a re-lock on the SAME block:
// c1 locks A in round r, a polka for another block B forms in round r+1 but is
// withheld from c1, A is re-proposed in round r+2 where c1 re-locks it and c2
// decides A with the faulty precommits; only then the stale round-(r+1) polka
// reaches c1.  A correct c1 stays locked (its lock is from r+2 now); if the
// re-lock did not advance the lock round, c1 unlocks and can be led to decide
// a third block C in round r+3 — a fork the agreement monitor sees.
func (n *Net) RecipeRelockAttack() string {
	if len(n.Faulty) == 0 || len(n.Order) < 3 {
		return "n/a"
	}
	lo, hi := n.MinMaxHeight()
	if lo != hi {
		return "heights-differ"
	}
	h := hi
	if !n.startRound(h) {
		return "cannot-start-round"
	}
	perm := n.R.Perm(len(n.Order))
	c1, c2 := n.Order[perm[0]], n.Order[perm[1]]
	var rest []int // the other correct nodes (c3, ...)
	for _, i := range n.Order {
		if i != c1 && i != c2 {
			rest = append(rest, i)
		}
	}
	notC1 := append([]int{c2}, rest...)
	r0 := n.Nodes[c1].CS.GetRoundState().Round
	for _, i := range n.Order {
		if n.Nodes[i].CS.GetRoundState().Round != r0 {
			return "rounds-differ"
		}
	}
	now := time.Now()
	vals := n.Nodes[c1].CS.GetRoundState().Validators
	byzVotes := func(typ tmproto.SignedMsgType, round int32, bid types.BlockID, to []int) {
		for _, g := range n.Faulty {
			if n.ValIndex(vals, g) < 0 {
				continue
			}
			v := n.SignVote(vals, g, typ, h, round, bid, now)
			for _, i := range to {
				n.Send(g, i, &cs.VoteMessage{Vote: v})
			}
		}
	}
	deliverVotes := func(typ tmproto.SignedMsgType, round int32, to []int, from func(int) bool) {
		n.DeliverWhere(6000, func(e *Envelope) bool {
			v, ok := isVote(e, typ)
			return ok && in(to, e.To) && v.Height == h && v.Round == round && from(e.From)
		})
	}
	anyFrom := func(int) bool { return true }
	passPrecommitWait := func(nodes []int, round int32) {
		for _, i := range nodes {
			rs := n.Nodes[i].CS.GetRoundState()
			if t, p := n.Nodes[i].Ticker.Pending(); p && rs.Height == h && rs.Round == round && t.Height == h && t.Round == round && t.Step == cstypes.RoundStepPrecommitWait {
				n.FireTimeout(i)
			}
		}
	}
	// ---------------- round r0: c1 alone locks A
	prop := n.ProposerAt(n.Nodes[c1], r0)
	if n.IsFaulty[prop] {
		kb := n.ByzBlock(n.Nodes[c1], prop, r0, 31, "")
		if kb == nil {
			return "byz-cannot-build"
		}
		msgs := n.ProposalMsgs(prop, kb, h, r0, -1)
		for _, i := range n.Order {
			n.Send(prop, i, msgs...)
		}
	}
	n.DeliverWhere(3000, isProposalOrPart)
	rs1 := n.Nodes[c1].CS.GetRoundState()
	if rs1.ProposalBlock == nil {
		return "no-proposal-block"
	}
	A := types.BlockID{Hash: rs1.ProposalBlock.Hash(), PartSetHeader: rs1.ProposalBlockParts.Header()}
	byzVotes(tmproto.PrevoteType, r0, A, []int{c1})
	byzVotes(tmproto.PrevoteType, r0, types.BlockID{}, notC1) // equivocation by the faulty validators: allowed
	deliverVotes(tmproto.PrevoteType, r0, []int{c1}, anyFrom)
	if n.Nodes[c1].CS.GetRoundState().LockedBlock == nil {
		return "c1-not-locked"
	}
	deliverVotes(tmproto.PrevoteType, r0, notC1, func(f int) bool { return f != c1 }) // no polka for the others
	for _, i := range notC1 {
		rs := n.Nodes[i].CS.GetRoundState()
		if rs.Height == h && rs.Round == r0 && rs.Step <= cstypes.RoundStepPrevoteWait {
			n.FireTimeout(i)
		}
	}
	byzVotes(tmproto.PrecommitType, r0, types.BlockID{}, n.Order)
	deliverVotes(tmproto.PrecommitType, r0, n.Order, anyFrom)
	passPrecommitWait(n.Order, r0)
	r1 := r0 + 1
	for _, i := range n.Order {
		if rs := n.Nodes[i].CS.GetRoundState(); rs.Height != h || rs.Round != r1 {
			return "no-round-r1"
		}
	}
	// ---------------- round r1: a polka for B exists in the network but nobody sees it; c1 sees nothing of it
	n.startRound(h)
	p1 := n.ProposerAt(n.Nodes[c2], r1)
	if p1 == c1 {
		return "c1-proposes-r1"
	}
	if n.IsFaulty[p1] {
		if kb := n.ByzBlock(n.Nodes[c2], p1, r1, 32, ""); kb != nil {
			msgs := n.ProposalMsgs(p1, kb, h, r1, -1)
			for _, i := range notC1 {
				n.Send(p1, i, msgs...)
			}
		}
	}
	n.DeliverWhere(3000, func(e *Envelope) bool { return isProposalOrPart(e) && in(notC1, e.To) })
	rs2 := n.Nodes[c2].CS.GetRoundState()
	if rs2.ProposalBlock == nil || string(rs2.ProposalBlock.Hash()) == string(A.Hash) {
		return "no-competing-block-r1"
	}
	B := types.BlockID{Hash: rs2.ProposalBlock.Hash(), PartSetHeader: rs2.ProposalBlockParts.Header()}
	// the others exchange their B prevotes (not enough for a polka without the faulty ones) and c1's prevote for A
	if rs := n.Nodes[c1].CS.GetRoundState(); rs.Step == cstypes.RoundStepPropose {
		n.FireTimeout(c1) // c1 has no proposal for r1: it prevotes its locked block
	}
	deliverVotes(tmproto.PrevoteType, r1, notC1, func(f int) bool { return !n.IsFaulty[f] })
	for _, i := range notC1 {
		rs := n.Nodes[i].CS.GetRoundState()
		if rs.Height == h && rs.Round == r1 && rs.Step <= cstypes.RoundStepPrevoteWait {
			n.FireTimeout(i)
		}
	}
	// the B prevotes addressed to c1 stay in flight (held back); the faulty B prevotes are created now, delivered later
	var heldForC1 []*Envelope
	keep := n.InFlight[:0]
	for _, e := range n.InFlight {
		if v, ok := isVote(e, tmproto.PrevoteType); ok && e.To == c1 && v.Height == h && v.Round == r1 {
			heldForC1 = append(heldForC1, e)
			continue
		}
		keep = append(keep, e)
	}
	n.InFlight = keep
	for _, g := range n.Faulty {
		if n.ValIndex(vals, g) >= 0 {
			heldForC1 = append(heldForC1, &Envelope{From: g, To: c1, Msg: &cs.VoteMessage{Vote: n.SignVote(vals, g, tmproto.PrevoteType, h, r1, B, now)}})
		}
	}
	byzVotes(tmproto.PrecommitType, r1, types.BlockID{}, n.Order)
	deliverVotes(tmproto.PrecommitType, r1, n.Order, anyFrom)
	passPrecommitWait(n.Order, r1)
	r2 := r1 + 1
	for _, i := range n.Order {
		if rs := n.Nodes[i].CS.GetRoundState(); rs.Height != h || rs.Round != r2 {
			return "no-round-r2"
		}
	}
	// ---------------- round r2: A is proposed again; c1 re-locks, c2 decides A
	n.startRound(h)
	p2 := n.ProposerAt(n.Nodes[c1], r2)
	switch {
	case n.IsFaulty[p2]:
		kb := n.Known[string(A.Hash)]
		if kb == nil || kb.Block == nil {
			return "A-unknown"
		}
		msgs := n.ProposalMsgs(p2, kb, h, r2, -1)
		for _, i := range n.Order {
			n.Send(p2, i, msgs...)
		}
	case p2 == c1:
		// c1 proposes its valid block A with POL round r0: the others need the round-r0 prevotes to accept it
		deliverVotes(tmproto.PrevoteType, r0, notC1, anyFrom)
	default:
		return "r2-proposer-would-not-repropose-A"
	}
	n.DeliverWhere(3000, isProposalOrPart)
	byzVotes(tmproto.PrevoteType, r2, A, []int{c1, c2})
	byzVotes(tmproto.PrevoteType, r2, types.BlockID{}, rest)
	deliverVotes(tmproto.PrevoteType, r2, []int{c1, c2}, anyFrom)
	if rs := n.Nodes[c2].CS.GetRoundState(); rs.LockedBlock == nil || string(rs.LockedBlock.Hash()) != string(A.Hash) {
		return "c2-did-not-lock-A-in-r2"
	}
	byzVotes(tmproto.PrecommitType, r2, A, []int{c2})
	deliverVotes(tmproto.PrecommitType, r2, []int{c2}, func(f int) bool { return f == c1 || f == c2 || n.IsFaulty[f] })
	decidedA := n.Nodes[c2].Blocks.Height() >= h
	// the rest: 2/3-any prevotes without a polka, then nil precommits
	deliverVotes(tmproto.PrevoteType, r2, rest, func(f int) bool { return n.IsFaulty[f] || in(rest, f) || f == c2 })
	for _, i := range rest {
		rs := n.Nodes[i].CS.GetRoundState()
		if rs.Height == h && rs.Round == r2 && rs.Step <= cstypes.RoundStepPrevoteWait {
			n.FireTimeout(i)
		}
	}
	// ---------------- now the stale round-r1 polka for B reaches c1
	for _, e := range heldForC1 {
		n.Deliver(e)
	}
	stillLocked := n.Nodes[c1].CS.GetRoundState().LockedBlock != nil
	// c1 and the rest go on to r3 (c2 has decided and is gone)
	goOn := append([]int{c1}, rest...)
	byzVotes(tmproto.PrecommitType, r2, types.BlockID{}, goOn)
	deliverVotes(tmproto.PrecommitType, r2, goOn, func(f int) bool { return f != c2 })
	passPrecommitWait(goOn, r2)
	// ---------------- rounds r3..r5: push a third block C at c1 and the rest
	for att := int32(0); att < 3; att++ {
		r3 := r2 + 1 + att
		okRound := true
		for _, i := range goOn {
			if rs := n.Nodes[i].CS.GetRoundState(); rs.Height != h || rs.Round != r3 {
				okRound = false
			}
		}
		if !okRound {
			break
		}
		for _, i := range goOn {
			n.startRoundOne(i, h)
		}
		p3 := n.ProposerAt(n.Nodes[c1], r3)
		if n.IsFaulty[p3] && len(rest) > 0 {
			if kb := n.ByzBlock(n.Nodes[rest[0]], p3, r3, 33+int(att), ""); kb != nil {
				msgs := n.ProposalMsgs(p3, kb, h, r3, n.ForgedPOL(r0, r3))
				for _, i := range goOn {
					n.Send(p3, i, msgs...)
				}
			}
		}
		n.DeliverWhere(3000, func(e *Envelope) bool { return isProposalOrPart(e) && in(goOn, e.To) })
		var C types.BlockID
		if len(rest) > 0 {
			if rs := n.Nodes[rest[0]].CS.GetRoundState(); rs.ProposalBlock != nil && string(rs.ProposalBlock.Hash()) != string(A.Hash) {
				C = types.BlockID{Hash: rs.ProposalBlock.Hash(), PartSetHeader: rs.ProposalBlockParts.Header()}
			}
		}
		for _, i := range goOn {
			if rs := n.Nodes[i].CS.GetRoundState(); rs.Height == h && rs.Round == r3 && rs.Step == cstypes.RoundStepPropose {
				n.FireTimeout(i)
			}
		}
		byzVotes(tmproto.PrevoteType, r3, C, goOn)
		byzVotes(tmproto.PrecommitType, r3, C, goOn)
		for k := 0; k < 3; k++ {
			n.DeliverWhere(6000, func(e *Envelope) bool {
				vm, ok := e.Msg.(*cs.VoteMessage)
				return ok && in(goOn, e.To) && vm.Vote.Height == h && vm.Vote.Round == r3 && e.From != c2
			})
			for _, i := range goOn {
				rs := n.Nodes[i].CS.GetRoundState()
				if t, p := n.Nodes[i].Ticker.Pending(); p && rs.Height == h && rs.Round == r3 && t.Round == r3 && (t.Step == cstypes.RoundStepPrevoteWait || t.Step == cstypes.RoundStepPrecommitWait) {
					n.FireTimeout(i)
				}
			}
		}
	}
	switch {
	case decidedA && stillLocked:
		return "c2-decided-A;c1-kept-lock"
	case decidedA:
		return "c2-decided-A;c1-UNLOCKED-by-stale-polka"
	}
	return "relock-without-decision"
}

// RecipeCommitThenRoundSkip: a correct node (the victim) learns +2/3 precommits
// for block B in round r before it has B (it waits in the commit step), while
// the other correct nodes see only 2/3-any precommits, time out and prevote in
// round r+1.  Those round r+1 prevotes reach the victim before B does; the
// others then receive the remaining round-r precommits and decide from round r.
// Nothing here needs a faulty validator to lie: its precommit is only slow
// towards the others.  After synchrony the victim must still decide.
func (n *Net) RecipeCommitThenRoundSkip() string {
	if len(n.Order) < 3 {
		return "n/a"
	}
	lo, hi := n.MinMaxHeight()
	if lo != hi {
		return "heights-differ"
	}
	h := hi
	if !n.startRound(h) {
		return "cannot-start-round"
	}
	victim := n.Order[n.R.Intn(len(n.Order))]
	round := n.Nodes[victim].CS.GetRoundState().Round
	for _, i := range n.Order {
		if n.Nodes[i].CS.GetRoundState().Round != round {
			return "rounds-differ"
		}
	}
	prop := n.ProposerAt(n.Nodes[victim], round)
	if prop == victim {
		return "victim-is-proposer"
	}
	others := []int{}
	for _, i := range n.Order {
		if i != victim {
			others = append(others, i)
		}
	}
	if n.IsFaulty[prop] {
		kb := n.ByzBlock(n.Nodes[others[0]], prop, round, 5, "")
		if kb == nil {
			return "byz-cannot-build"
		}
		msgs := n.ProposalMsgs(prop, kb, h, round, -1)
		for _, i := range others {
			n.Send(prop, i, msgs...)
		}
	}
	// A. proposal and parts to the others only
	n.DeliverWhere(2000, func(e *Envelope) bool { return isProposalOrPart(e) && e.To != victim })
	rso := n.Nodes[others[0]].CS.GetRoundState()
	if rso.ProposalBlock == nil || rso.ProposalBlockParts == nil {
		return "no-proposal-block"
	}
	bid := types.BlockID{Hash: rso.ProposalBlock.Hash(), PartSetHeader: rso.ProposalBlockParts.Header()}
	vals := rso.Validators
	now := time.Now()
	// faulty validators prevote B towards everybody; their precommit for B goes out too but is slow towards the others
	for _, g := range n.Faulty {
		if n.ValIndex(vals, g) < 0 {
			continue
		}
		pv := n.SignVote(vals, g, tmproto.PrevoteType, h, round, bid, now)
		pc := n.SignVote(vals, g, tmproto.PrecommitType, h, round, bid, now)
		for _, j := range n.Order {
			n.Send(g, j, &cs.VoteMessage{Vote: pv}, &cs.VoteMessage{Vote: pc})
		}
	}
	// the victim has no proposal: propose timeout -> prevote nil
	if rs := n.Nodes[victim].CS.GetRoundState(); rs.Step == cstypes.RoundStepPropose {
		n.FireTimeout(victim)
	}
	// all prevotes of this round to everybody
	n.DeliverWhere(4000, func(e *Envelope) bool {
		v, ok := isVote(e, tmproto.PrevoteType)
		return ok && v.Height == h && v.Round == round
	})
	for _, i := range others {
		if rs := n.Nodes[i].CS.GetRoundState(); rs.Height != h || rs.Round != round || rs.Step < cstypes.RoundStepPrecommit || rs.LockedBlock == nil {
			return "others-did-not-lock"
		}
	}
	// the victim saw the polka but has no block: prevote wait -> precommit nil
	if t, p := n.Nodes[victim].Ticker.Pending(); p && t.Step == cstypes.RoundStepPrevoteWait {
		n.FireTimeout(victim)
	}
	if rs := n.Nodes[victim].CS.GetRoundState(); rs.Step < cstypes.RoundStepPrecommit {
		return "victim-did-not-precommit"
	}
	// B. precommits: everything to the victim; to each other node only as much as keeps B at <= 2/3
	n.DeliverWhere(4000, func(e *Envelope) bool {
		v, ok := isVote(e, tmproto.PrecommitType)
		return ok && v.Height == h && v.Round == round && e.To == victim
	})
	rsv := n.Nodes[victim].CS.GetRoundState()
	if rsv.Height != h || rsv.Step != cstypes.RoundStepCommit || rsv.ProposalBlock != nil {
		return "victim-not-waiting-in-commit"
	}
	total := vals.TotalVotingPower()
	for _, o := range others {
		opk, _ := n.Nodes[o].PV.GetPubKey()
		_, ov := vals.GetByAddress(opk.Address())
		if ov == nil {
			return "other-not-validator"
		}
		forB := ov.VotingPower
		n.DeliverWhere(4000, func(e *Envelope) bool {
			v, ok := isVote(e, tmproto.PrecommitType)
			if !ok || v.Height != h || v.Round != round || e.To != o || n.IsFaulty[e.From] {
				return false
			}
			if len(v.BlockID.Hash) == 0 {
				return true
			}
			_, val := vals.GetByAddress(v.ValidatorAddress)
			if val == nil || (forB+val.VotingPower)*3 > total*2 {
				return false
			}
			forB += val.VotingPower
			return true
		})
		if t, p := n.Nodes[o].Ticker.Pending(); !p || t.Step != cstypes.RoundStepPrecommitWait {
			return "other-not-in-precommit-wait"
		}
	}
	// C. the others time out, enter round r+1 and prevote (their locked block)
	for _, o := range others {
		n.FireTimeout(o)
		if rs := n.Nodes[o].CS.GetRoundState(); rs.Round == round+1 && rs.Step == cstypes.RoundStepPropose {
			n.FireTimeout(o)
		}
	}
	mode := n.R.Intn(3) // 0: next-round prevotes reach the victim; 1: prevotes and nil precommits; 2: nil precommits only
	for _, g := range n.Faulty {
		if n.ValIndex(vals, g) < 0 {
			continue
		}
		pv := n.SignVote(vals, g, tmproto.PrevoteType, h, round+1, types.BlockID{}, now)
		pc := n.SignVote(vals, g, tmproto.PrecommitType, h, round+1, types.BlockID{}, now)
		for _, j := range n.Order {
			n.Send(g, j, &cs.VoteMessage{Vote: pv})
			if mode > 0 {
				n.Send(g, j, &cs.VoteMessage{Vote: pc})
			}
		}
	}
	got := 0
	if mode > 0 {
		// the others see 2/3-any prevotes of round r+1 but no polka, time out and precommit nil (keeping their lock)
		for _, o := range others {
			if rs := n.Nodes[o].CS.GetRoundState(); rs.Round != round+1 || rs.Step != cstypes.RoundStepPrevote {
				continue
			}
			opk, _ := n.Nodes[o].PV.GetPubKey()
			_, ov := vals.GetByAddress(opk.Address())
			forB := ov.VotingPower
			n.DeliverWhere(4000, func(e *Envelope) bool {
				v, ok := isVote(e, tmproto.PrevoteType)
				if !ok || v.Height != h || v.Round != round+1 || e.To != o {
					return false
				}
				if len(v.BlockID.Hash) == 0 {
					return true
				}
				_, val := vals.GetByAddress(v.ValidatorAddress)
				if val == nil || (forB+val.VotingPower)*3 > total*2 {
					return false
				}
				forB += val.VotingPower
				return true
			})
			if t, p := n.Nodes[o].Ticker.Pending(); p && t.Round == round+1 && t.Step == cstypes.RoundStepPrevoteWait {
				n.FireTimeout(o)
			}
		}
		// the round r+1 precommits reach the victim before the block does
		got += n.DeliverWhere(4000, func(e *Envelope) bool {
			v, ok := isVote(e, tmproto.PrecommitType)
			return ok && v.Height == h && v.Round == round+1 && e.To == victim
		})
	}
	if mode < 2 {
		// D. the round r+1 prevotes reach the victim before the block does
		got += n.DeliverWhere(4000, func(e *Envelope) bool {
			v, ok := isVote(e, tmproto.PrevoteType)
			return ok && v.Height == h && v.Round == round+1 && e.To == victim
		})
	}
	if got == 0 {
		return "no-next-round-votes"
	}
	// a precommit-wait timeout the victim may have scheduled for round r+1 fires before the block arrives
	if t, p := n.Nodes[victim].Ticker.Pending(); p && t.Height == h && t.Round == round+1 {
		n.FireTimeout(victim)
	}
	// E. the others now receive the remaining round-r precommits and decide from round r
	n.DeliverWhere(4000, func(e *Envelope) bool {
		v, ok := isVote(e, tmproto.PrecommitType)
		return ok && v.Height == h && v.Round == round && e.To != victim
	})
	decided := 0
	for _, o := range others {
		if n.Nodes[o].Blocks.Height() >= h {
			decided++
		}
	}
	rsv = n.Nodes[victim].CS.GetRoundState()
	return fmt.Sprintf("done(mode=%d,others-decided=%v,victim-step=%v,victim-round-moved=%v)", mode, decided == len(others), rsv.Step, rsv.Round != round)
}

// RecipePolkaBeforeOwnPrevote: one correct node (the victim) never receives the
// proposal of the round, but receives everybody else's prevotes for the proposed
// block while it is still in the propose step: the polka is complete in its vote
// set before it casts its own (nil) prevote.  The other correct nodes precommit
// the block; without the victim (and with the faulty validators silent) they have
// no +2/3.  After synchrony the victim must still get going again.
func (n *Net) RecipePolkaBeforeOwnPrevote() string {
	if len(n.Order) < 3 {
		return "n/a"
	}
	lo, hi := n.MinMaxHeight()
	if lo != hi {
		return "heights-differ"
	}
	h := hi
	if !n.startRound(h) {
		return "cannot-start-round"
	}
	victim := n.Order[n.R.Intn(len(n.Order))]
	round := n.Nodes[victim].CS.GetRoundState().Round
	for _, i := range n.Order {
		if n.Nodes[i].CS.GetRoundState().Round != round {
			return "rounds-differ"
		}
	}
	prop := n.ProposerAt(n.Nodes[victim], round)
	if prop == victim {
		return "victim-is-proposer"
	}
	others := []int{}
	for _, i := range n.Order {
		if i != victim {
			others = append(others, i)
		}
	}
	if n.IsFaulty[prop] {
		kb := n.ByzBlock(n.Nodes[others[0]], prop, round, 7, "")
		if kb == nil {
			return "byz-cannot-build"
		}
		msgs := n.ProposalMsgs(prop, kb, h, round, -1)
		for _, i := range others {
			n.Send(prop, i, msgs...)
		}
	}
	n.DeliverWhere(2000, func(e *Envelope) bool { return isProposalOrPart(e) && e.To != victim })
	rso := n.Nodes[others[0]].CS.GetRoundState()
	if rso.ProposalBlock == nil || rso.ProposalBlockParts == nil {
		return "no-proposal-block"
	}
	bid := types.BlockID{Hash: rso.ProposalBlock.Hash(), PartSetHeader: rso.ProposalBlockParts.Header()}
	vals := rso.Validators
	now := time.Now()
	// the faulty validators prevote the block (towards everybody) and then fall silent
	for _, g := range n.Faulty {
		if n.ValIndex(vals, g) < 0 {
			continue
		}
		pv := n.SignVote(vals, g, tmproto.PrevoteType, h, round, bid, now)
		for _, j := range n.Order {
			n.Send(g, j, &cs.VoteMessage{Vote: pv})
		}
	}
	// every prevote reaches the victim while it is still waiting for the proposal
	if rs := n.Nodes[victim].CS.GetRoundState(); rs.Step != cstypes.RoundStepPropose {
		return "victim-not-in-propose"
	}
	n.DeliverWhere(4000, func(e *Envelope) bool {
		v, ok := isVote(e, tmproto.PrevoteType)
		return ok && v.Height == h && v.Round == round
	})
	rsv := n.Nodes[victim].CS.GetRoundState()
	if _, ok := rsv.Votes.Prevotes(round).TwoThirdsMajority(); !ok || rsv.Step != cstypes.RoundStepPropose {
		return "no-polka-before-own-prevote"
	}
	// only now its propose timeout fires: it prevotes nil with the polka already there
	n.FireTimeout(victim)
	n.DeliverWhere(4000, func(e *Envelope) bool {
		v, ok := isVote(e, tmproto.PrevoteType)
		return ok && v.Height == h && v.Round == round
	})
	rsv = n.Nodes[victim].CS.GetRoundState()
	_, pending := n.Nodes[victim].Ticker.Pending()
	return fmt.Sprintf("done(victim-step=%v,victim-has-pending-timeout=%v)", rsv.Step, pending)
}

// deliverBelowPolka delivers to node x the in-flight votes of (typ, h, round): nil votes freely, votes for a
// block only while that block stays at or below two thirds at x (x's own vote counted), optionally never from
// faulty senders.  Returns whether x now has +2/3 of anything.
func (n *Net) deliverBelowPolka(x int, vals *types.ValidatorSet, typ tmproto.SignedMsgType, h int64, round int32, noFaulty bool) bool {
	total := vals.TotalVotingPower()
	xpk, _ := n.Nodes[x].PV.GetPubKey()
	_, xv := vals.GetByAddress(xpk.Address())
	forB := int64(0)
	if xv != nil {
		forB = xv.VotingPower
	}
	n.DeliverWhere(4000, func(e *Envelope) bool {
		v, ok := isVote(e, typ)
		if !ok || v.Height != h || v.Round != round || e.To != x || (noFaulty && n.IsFaulty[e.From] && len(v.BlockID.Hash) != 0) {
			return false
		}
		if len(v.BlockID.Hash) == 0 {
			return true
		}
		_, val := vals.GetByAddress(v.ValidatorAddress)
		if val == nil || (forB+val.VotingPower)*3 > total*2 {
			return false
		}
		forB += val.VotingPower
		return true
	})
	var vs *types.VoteSet
	if typ == tmproto.PrevoteType {
		vs = n.Nodes[x].CS.GetRoundState().Votes.Prevotes(round)
	} else {
		vs = n.Nodes[x].CS.GetRoundState().Votes.Precommits(round)
	}
	return vs != nil && vs.HasTwoThirdsAny()
}

// passRoundAllNil: every correct node is past its prevote in (h, round) without a lock of this round;
// faulty validators precommit nil, all precommits are exchanged, the precommit-wait timeouts fire.
func (n *Net) passRoundAllNil(vals *types.ValidatorSet, h int64, round int32) bool {
	now := time.Now()
	for _, g := range n.Faulty {
		if n.ValIndex(vals, g) < 0 {
			continue
		}
		vn := n.SignVote(vals, g, tmproto.PrecommitType, h, round, types.BlockID{}, now)
		for _, i := range n.Order {
			n.Send(g, i, &cs.VoteMessage{Vote: vn})
		}
	}
	n.DeliverWhere(4000, func(e *Envelope) bool {
		v, ok := isVote(e, tmproto.PrecommitType)
		return ok && v.Height == h && v.Round == round
	})
	for _, i := range n.Order {
		rs := n.Nodes[i].CS.GetRoundState()
		if t, p := n.Nodes[i].Ticker.Pending(); p && rs.Height == h && rs.Round == round && t.Round == round && t.Step == cstypes.RoundStepPrecommitWait {
			n.FireTimeout(i)
		}
	}
	for _, i := range n.Order {
		if rs := n.Nodes[i].CS.GetRoundState(); rs.Height != h || rs.Round != round+1 {
			return false
		}
	}
	return true
}

// RecipeStaleValidBlock: a correct node L first learns a valid block B (the polka of round r0 reaches it
// only after it precommitted nil; nobody locks).  In round r0+1 a faulty proposer proposes another block
// C; L sees the polka for C while C's block part is still missing, the part arrives before its prevote
// timeout, L locks C.  The other correct nodes miss that polka.  From then on only L can bring C back
// (as its valid block, when it is the proposer): the height must still be decided after synchrony.
func (n *Net) RecipeStaleValidBlock() string {
	if len(n.Order) < 3 || len(n.Faulty) == 0 {
		return "n/a"
	}
	lo, hi := n.MinMaxHeight()
	if lo != hi {
		return "heights-differ"
	}
	h := hi
	if !n.startRound(h) {
		return "cannot-start-round"
	}
	L := n.Order[n.R.Intn(len(n.Order))]
	r0 := n.Nodes[L].CS.GetRoundState().Round
	for _, i := range n.Order {
		rs := n.Nodes[i].CS.GetRoundState()
		if rs.Round != r0 || rs.LockedBlock != nil || rs.ValidBlock != nil {
			return "rounds-differ-or-locks"
		}
	}
	vals := n.Nodes[L].CS.GetRoundState().Validators
	p1 := n.ProposerAt(n.Nodes[L], r0+1)
	if !n.IsFaulty[p1] {
		return "next-proposer-not-faulty"
	}
	var others []int
	for _, i := range n.Order {
		if i != L {
			others = append(others, i)
		}
	}
	now := time.Now()
	// ---- round r0: everybody gets B and prevotes it, nobody sees the polka in time
	if p0 := n.ProposerAt(n.Nodes[L], r0); n.IsFaulty[p0] {
		kb := n.ByzBlock(n.Nodes[L], p0, r0, 61, "")
		if kb == nil {
			return "byz-cannot-build"
		}
		msgs := n.ProposalMsgs(p0, kb, h, r0, -1)
		for _, i := range n.Order {
			n.Send(p0, i, msgs...)
		}
	}
	n.DeliverWhere(3000, func(e *Envelope) bool { return isProposalOrPart(e) })
	rsL := n.Nodes[L].CS.GetRoundState()
	if rsL.ProposalBlock == nil {
		return "no-proposal-block"
	}
	B := types.BlockID{Hash: rsL.ProposalBlock.Hash(), PartSetHeader: rsL.ProposalBlockParts.Header()}
	for _, g := range n.Faulty {
		if n.ValIndex(vals, g) < 0 {
			continue
		}
		vn := n.SignVote(vals, g, tmproto.PrevoteType, h, r0, types.BlockID{}, now)
		for _, i := range n.Order {
			n.Send(g, i, &cs.VoteMessage{Vote: vn})
		}
	}
	for _, i := range n.Order {
		if !n.deliverBelowPolka(i, vals, tmproto.PrevoteType, h, r0, true) {
			return "r0-no-two-thirds-any"
		}
	}
	for _, i := range n.Order {
		if t, p := n.Nodes[i].Ticker.Pending(); p && t.Round == r0 && t.Step == cstypes.RoundStepPrevoteWait {
			n.FireTimeout(i)
		}
		if rs := n.Nodes[i].CS.GetRoundState(); rs.Step < cstypes.RoundStepPrecommit || rs.LockedBlock != nil {
			return "r0-not-all-precommitted-nil"
		}
	}
	// the rest of the round-r0 prevotes reaches L only: it now knows B as a valid block
	n.DeliverWhere(4000, func(e *Envelope) bool {
		v, ok := isVote(e, tmproto.PrevoteType)
		return ok && v.Height == h && v.Round == r0 && e.To == L && !n.IsFaulty[e.From]
	})
	if rs := n.Nodes[L].CS.GetRoundState(); rs.ValidBlock == nil || rs.LockedBlock != nil {
		return "L-has-no-valid-block"
	}
	if !n.passRoundAllNil(vals, h, r0) {
		return "r0-not-passed"
	}
	// ---- round r0+1: the faulty proposer's block C; L gets the proposal but not the part
	r1 := r0 + 1
	if !n.startRound(h) {
		return "cannot-start-r1"
	}
	kb := n.ByzBlock(n.Nodes[others[0]], p1, r1, 63, "")
	if kb == nil || string(kb.BlockID.Hash) == string(B.Hash) {
		return "byz-cannot-build-C"
	}
	msgs := n.ProposalMsgs(p1, kb, h, r1, -1)
	for _, i := range n.Order {
		n.Send(p1, i, msgs...)
	}
	n.DeliverWhere(3000, func(e *Envelope) bool {
		if _, ok := e.Msg.(*cs.ProposalMessage); ok {
			return true
		}
		_, part := e.Msg.(*cs.BlockPartMessage)
		return part && e.To != L
	})
	if rs := n.Nodes[L].CS.GetRoundState(); rs.Step == cstypes.RoundStepPropose {
		n.FireTimeout(L) // no block: prevote nil
	}
	for _, g := range n.Faulty {
		if n.ValIndex(vals, g) < 0 {
			continue
		}
		vc := n.SignVote(vals, g, tmproto.PrevoteType, h, r1, kb.BlockID, now)
		n.Send(g, L, &cs.VoteMessage{Vote: vc})
	}
	// L sees every prevote (polka for C, block still missing); the others stay below a polka
	n.DeliverWhere(4000, func(e *Envelope) bool {
		v, ok := isVote(e, tmproto.PrevoteType)
		return ok && v.Height == h && v.Round == r1 && e.To == L
	})
	if bid, ok := n.Nodes[L].CS.GetRoundState().Votes.Prevotes(r1).TwoThirdsMajority(); !ok || string(bid.Hash) != string(kb.BlockID.Hash) {
		return "no-polka-for-C-at-L"
	}
	for _, o := range others {
		if !n.deliverBelowPolka(o, vals, tmproto.PrevoteType, h, r1, true) {
			return "r1-others-no-two-thirds-any"
		}
		if t, p := n.Nodes[o].Ticker.Pending(); p && t.Round == r1 && t.Step == cstypes.RoundStepPrevoteWait {
			n.FireTimeout(o)
		}
		if rs := n.Nodes[o].CS.GetRoundState(); rs.LockedBlock != nil {
			return "r1-other-locked"
		}
	}
	// the missing part reaches L before its prevote-wait timeout
	n.DeliverWhere(200, func(e *Envelope) bool { return isProposalOrPart(e) && e.To == L })
	if t, p := n.Nodes[L].Ticker.Pending(); p && t.Round == r1 && t.Step == cstypes.RoundStepPrevoteWait {
		n.FireTimeout(L)
	}
	rsL = n.Nodes[L].CS.GetRoundState()
	if rsL.LockedBlock == nil || string(rsL.LockedBlock.Hash()) != string(kb.BlockID.Hash) {
		return "L-did-not-lock-C"
	}
	validIsLocked := rsL.ValidBlock != nil && string(rsL.ValidBlock.Hash()) == string(kb.BlockID.Hash)
	passed := n.passRoundAllNil(vals, h, r1)
	return fmt.Sprintf("done(L-valid-block-is-its-locked-block=%v,round-passed=%v)", validIsLocked, passed)
}
