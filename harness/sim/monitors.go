package sim

import (
	"bytes"
	"fmt"
	"math/big"

	"github.com/tendermint/tendermint/libs/log"
	"github.com/tendermint/tendermint/mempool/mock"
	tmproto "github.com/tendermint/tendermint/proto/tendermint/types"
	sm "github.com/tendermint/tendermint/state"
	"github.com/tendermint/tendermint/types"

	"verif/ref"
)

// Finding is a monitor verdict with a stable key.
type Finding struct {
	Key  string
	What string
}

// AuditDecision is the C01 oracle for one decided height of one node:
// (b) the decided block passes full validation against the node's pre-state,
// (c) the stored seen commit carries, in one round, for exactly that block id,
// valid signatures of > 2/3 of the power of the validator set of that height.
func (n *Net) AuditDecision(nd *Node, h int64, cache *ref.SigCache) []Finding {
	var out []Finding
	block := nd.Blocks.LoadBlock(h)
	meta := nd.Blocks.LoadBlockMeta(h)
	seen := nd.Blocks.LoadSeenCommit(h)
	if block == nil || meta == nil || seen == nil {
		return []Finding{{"decision-not-loadable", fmt.Sprintf("node %d decided height %d but block/meta/seen commit cannot be loaded", nd.Idx, h)}}
	}
	pre, ok := nd.PreState[h]
	if !ok {
		return []Finding{{"harness-no-prestate", fmt.Sprintf("no pre-state recorded for node %d height %d", nd.Idx, h)}}
	}
	if !bytes.Equal(block.Hash(), meta.BlockID.Hash) {
		out = append(out, Finding{"decided-block-hash-mismatch", fmt.Sprintf("node %d height %d: stored block does not hash to its id", nd.Idx, h)})
	}
	// (b) full validation on a pristine copy of the pre-state; evidence admission is
	// C11's business, so an empty pool is used here and evidence is audited below.
	exec := sm.NewBlockExecutor(nd.States, log.NewNopLogger(), nil, mock.Mempool{}, sm.EmptyEvidencePool{})
	if err := exec.ValidateBlock(pre.Copy(), block); err != nil {
		out = append(out, Finding{"decided-invalid-block", fmt.Sprintf("node %d decided a block at height %d that fails validation against its own state: %v", nd.Idx, h, err)})
	}
	// (c) commit tally by the reference, all signatures re-verified
	tr := ref.TallyCommitCached(cache, n.ChainID, pre.Validators, meta.BlockID, h, seen)
	if tr.Structural != nil || !ref.TwoThirds(tr) {
		out = append(out, Finding{"decided-without-quorum", fmt.Sprintf("node %d height %d: seen commit has %v of %v power for the decided block (structural: %v)", nd.Idx, h, tr.ForBlock, tr.Total, tr.Structural)})
	}
	// evidence in a decided block can only accuse validators the adversary controls
	for _, ev := range block.Evidence.Evidence {
		if dv, ok := ev.(*types.DuplicateVoteEvidence); ok {
			g, known := n.AddrIdx[string(dv.VoteA.ValidatorAddress)]
			if !known || !n.IsFaulty[g] {
				out = append(out, Finding{"evidence-against-correct-validator", fmt.Sprintf("node %d height %d: decided block carries duplicate-vote evidence against correct validator %X", nd.Idx, h, dv.VoteA.ValidatorAddress)})
			}
		}
	}
	return out
}

// Agreement is the C01 (a) oracle: all correct nodes that have height h stored the same block.
func (n *Net) Agreement(h int64) *Finding {
	var first []byte
	firstNode := -1
	for _, i := range n.Order {
		m := n.Nodes[i].Blocks.LoadBlockMeta(h)
		if m == nil {
			continue
		}
		if first == nil {
			first, firstNode = m.BlockID.Hash, i
			continue
		}
		if !bytes.Equal(first, m.BlockID.Hash) {
			return &Finding{"disagreement", fmt.Sprintf("height %d: node %d decided %X, node %d decided %X", h, firstNode, first, i, m.BlockID.Hash)}
		}
	}
	return nil
}

func bidKey(b types.BlockID) string {
	if len(b.Hash) == 0 {
		return "nil"
	}
	return string(b.Hash) + "/" + string(b.PartSetHeader.Hash) + fmt.Sprint(b.PartSetHeader.Total)
}

// AuditVotes is the C02 oracle for one node: an offline pass joining the
// signer journal with the delivery journal.
//  1. at most one sign-bytes (ignoring the timestamp) per (H, R, kind);
//  2. a precommit for block B at (H,R) only after the complete block B and
//     prevotes for B in round R from > 2/3 of the power were delivered;
//  3. after a precommit for B at round r, a prevote for X != B at r' > r only if
//     for some r” in (r, r'] prevotes for a single Y != B (nil included) from
//     > 2/3 of the power had been delivered.
//
// Quorums are recomputed from the delivery journal with big integers; votes
// are counted only if their signature verifies and they were delivered while
// the node was at that height.
func (n *Net) AuditVotes(nd *Node, cache *ref.SigCache) []Finding {
	var out []Finding
	type hrk struct {
		h int64
		r int32
		k string
	}
	// 1. equivocation
	seenSig := map[hrk]Signed{}
	for _, s := range nd.PV.Log {
		k := hrk{s.Height, s.Round, s.Kind}
		if prev, ok := seenSig[k]; ok {
			same := bidKey(prev.BlockID) == bidKey(s.BlockID) && prev.POLRound == s.POLRound
			if !same {
				out = append(out, Finding{"equivocation", fmt.Sprintf("node %d signed two different %ss at %d/%d: %X and %X", nd.Idx, s.Kind, s.Height, s.Round, prev.BlockID.Hash, s.BlockID.Hash)})
			} else if !prev.Timestamp.Equal(s.Timestamp) && !bytes.Equal(prev.Signature, s.Signature) {
				// MockPV re-signs; only FilePV promises signature reuse (C04 checks that).
				_ = same
			}
			continue
		}
		seenSig[k] = s
	}
	// index deliveries by step
	power := func(h int64, idx int32, addr []byte) (*types.Validator, *big.Int) {
		pre, ok := nd.PreState[h]
		if !ok {
			return nil, nil
		}
		if idx < 0 || int(idx) >= len(pre.Validators.Validators) {
			return nil, nil
		}
		v := pre.Validators.Validators[idx]
		if !bytes.Equal(v.Address, addr) {
			return nil, nil
		}
		return v, big.NewInt(v.VotingPower)
	}
	total := func(h int64) *big.Int {
		pre, ok := nd.PreState[h]
		if !ok {
			return nil
		}
		t := new(big.Int)
		for _, v := range pre.Validators.Validators {
			t.Add(t, big.NewInt(v.VotingPower))
		}
		return t
	}
	// quorum(h, r, type, key, beforeStep): power of distinct validators whose valid vote was delivered at or before step
	quorum := func(h int64, r int32, typ tmproto.SignedMsgType, key string, step int) *big.Int {
		sum := new(big.Int)
		counted := map[int32]bool{}
		for _, d := range nd.Journal {
			if d.Step > step {
				break
			}
			if d.Kind != "vote" || d.AtHeight != h {
				continue
			}
			v := d.Vote
			if v.Height != h || v.Round != r || v.Type != typ || bidKey(v.BlockID) != key || counted[v.ValidatorIndex] {
				continue
			}
			val, p := power(h, v.ValidatorIndex, v.ValidatorAddress)
			if val == nil {
				continue
			}
			msg := ref.CanonicalVoteSignBytes(n.ChainID, int32(typ), h, r, v.BlockID, v.Timestamp)
			if !cache.Verify(val.PubKey, msg, v.Signature) {
				continue
			}
			counted[v.ValidatorIndex] = true
			sum.Add(sum, p)
		}
		return sum
	}
	anyQuorumOther := func(h int64, r int32, notKey string, step int) bool {
		keys := map[string]bool{}
		for _, d := range nd.Journal {
			if d.Step > step {
				break
			}
			if d.Kind == "vote" && d.AtHeight == h && d.Vote.Height == h && d.Vote.Round == r && d.Vote.Type == tmproto.PrevoteType {
				keys[bidKey(d.Vote.BlockID)] = true
			}
		}
		t := total(h)
		for k := range keys {
			if k == notKey {
				continue
			}
			if ref.FractionExceeded(quorum(h, r, tmproto.PrevoteType, k, step), t, 2, 3) {
				return true
			}
		}
		return false
	}
	holds := func(h int64, bid types.BlockID, step int) bool {
		got := map[uint32]bool{}
		root := fmt.Sprintf("%x", []byte(bid.PartSetHeader.Hash))
		for _, d := range nd.Journal {
			if d.Step > step {
				break
			}
			if d.Kind == "part" && d.AtHeight == h && d.PartRoot == root {
				got[d.PartIdx] = true
			}
		}
		for i := uint32(0); i < bid.PartSetHeader.Total; i++ {
			if !got[i] {
				return false
			}
		}
		return true
	}
	// 2 and 3
	type lock struct {
		round int32
		bid   types.BlockID
	}
	lastPC := map[int64]*lock{}
	for _, s := range nd.PV.Log {
		t := total(s.Height)
		if t == nil {
			continue
		}
		switch s.Kind {
		case "precommit":
			if len(s.BlockID.Hash) == 0 {
				continue
			}
			if !holds(s.Height, s.BlockID, s.Step) {
				out = append(out, Finding{"precommit-without-block", fmt.Sprintf("node %d precommitted %X at %d/%d without having been delivered the complete block", nd.Idx, s.BlockID.Hash, s.Height, s.Round)})
			}
			q := quorum(s.Height, s.Round, tmproto.PrevoteType, bidKey(s.BlockID), s.Step)
			if !ref.FractionExceeded(q, t, 2, 3) {
				out = append(out, Finding{"precommit-without-polka", fmt.Sprintf("node %d precommitted %X at %d/%d with delivered prevote power %v of %v", nd.Idx, s.BlockID.Hash, s.Height, s.Round, q, t)})
			}
			if l := lastPC[s.Height]; l == nil || s.Round > l.round {
				lastPC[s.Height] = &lock{s.Round, s.BlockID}
			}
		case "prevote":
			l := lastPC[s.Height]
			if l == nil || s.Round <= l.round || bidKey(s.BlockID) == bidKey(l.bid) {
				continue
			}
			justified := false
			for r := l.round + 1; r <= s.Round && !justified; r++ {
				justified = anyQuorumOther(s.Height, r, bidKey(l.bid), s.Step)
			}
			if !justified {
				out = append(out, Finding{"prevote-against-lock", fmt.Sprintf("node %d precommitted %X at %d/%d and later prevoted %X at round %d without a more recent 2/3 prevote quorum for something else", nd.Idx, l.bid.Hash, s.Height, l.round, s.BlockID.Hash, s.Round)})
			}
		}
	}
	return out
}
