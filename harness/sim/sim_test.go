package sim

import (
	"math/rand"
	"testing"
)

func TestSmoke(t *testing.T) {
	for seed := int64(1); seed <= 5; seed++ {
		r := rand.New(rand.NewSource(seed))
		n := NewNet(r, NetOpt{Seed: seed, Powers: []int64{10, 10, 10, 10}, Faulty: []int{3}, SkipTimeoutCommit: seed%2 == 0})
		n.Start()
		n.Pump()
		for s := 0; s < 600; s++ {
			n.AsyncStep()
		}
		lo, hi := n.MinMaxHeight()
		res := n.RunSync(hi, 30, 2000, nil)
		lo2, hi2 := n.MinMaxHeight()
		t.Logf("seed %d: async heights %d..%d; sync %+v; after %d..%d stats %v", seed, lo, hi, res, lo2, hi2, n.Stats)
		n.Close()
	}
}
