package sim

import (
	"fmt"

	cs "github.com/tendermint/tendermint/consensus"
	cstypes "github.com/tendermint/tendermint/consensus/types"
	tmproto "github.com/tendermint/tendermint/proto/tendermint/types"
	"github.com/tendermint/tendermint/types"
)

// DeliverAll delivers everything in flight, FIFO, until the network is empty.
func (n *Net) DeliverAll(max int) int {
	cnt := 0
	for len(n.InFlight) > 0 && cnt < max {
		if n.stopAt > 0 && n.allDecided(n.stopAt) {
			break
		}
		e := n.InFlight[0]
		n.InFlight = n.InFlight[1:]
		n.Deliver(e)
		cnt++
	}
	return cnt
}

func votesOf(vs *types.VoteSet) []*types.Vote {
	if vs == nil {
		return nil
	}
	l := vs.List()
	out := make([]*types.Vote, 0, len(l))
	for i := range l {
		v := l[i]
		out = append(out, &v)
	}
	return out
}

func partsOf(ps *types.PartSet) []*types.Part {
	if ps == nil {
		return nil
	}
	var out []*types.Part
	for i := 0; i < int(ps.Total()); i++ {
		if p := ps.GetPart(i); p != nil {
			out = append(out, p)
		}
	}
	return out
}

// Gossip puts in flight, for every ordered pair of correct nodes (i, j),
// everything i holds that is relevant to the height j is working on: the
// idealised gossip layer of the synchronous suffix (DESIGN.md 2.3).  Majority
// claims are applied directly, as the reactor does.
func (n *Net) Gossip() {
	if n.gossipSent == nil {
		n.gossipSent = map[[2]int]map[string]bool{}
		n.gossipCtx = map[[2]int]string{}
	}
	for _, i := range n.Order {
		src := n.Nodes[i]
		rsi := src.CS.GetRoundState()
		for _, j := range n.Order {
			if i == j {
				continue
			}
			dst := n.Nodes[j]
			rsj := dst.CS.GetRoundState()
			// Like the reactor's PeerState: what was already sent to j is not sent again
			// until j moves to another height / round / step / expected part-set header.
			pair := [2]int{i, j}
			ctx := fmt.Sprintf("%d/%d/%d", rsj.Height, rsj.Round, rsj.Step)
			if rsj.ProposalBlockParts != nil {
				ctx += fmt.Sprintf("/%X", rsj.ProposalBlockParts.Header().Hash)
			}
			if n.gossipCtx[pair] != ctx {
				n.gossipCtx[pair] = ctx
				n.gossipSent[pair] = map[string]bool{}
			}
			n.curSent = n.gossipSent[pair]
			switch {
			case rsi.Height == rsj.Height:
				h := rsi.Height
				if rsi.Proposal != nil {
					n.gsend(i, j, &cs.ProposalMessage{Proposal: rsi.Proposal})
				}
				// parts of any block i holds whose header j is waiting for, and of i's current proposal
				sets := []*types.PartSet{rsi.ProposalBlockParts, rsi.LockedBlockParts, rsi.ValidBlockParts}
				for _, ps := range sets {
					if ps == nil {
						continue
					}
					want := rsj.ProposalBlockParts != nil && rsj.ProposalBlockParts.HasHeader(ps.Header())
					cur := rsi.Proposal != nil && ps.HasHeader(rsi.Proposal.BlockID.PartSetHeader)
					if want || cur {
						for _, p := range partsOf(ps) {
							n.gsend(i, j, &cs.BlockPartMessage{Height: h, Round: rsj.Round, Part: p})
						}
					}
				}
				maxR := rsi.Round
				if rsi.Votes.Round() > maxR {
					maxR = rsi.Votes.Round()
				}
				for r := int32(0); r <= maxR+1; r++ {
					for _, typ := range []tmproto.SignedMsgType{tmproto.PrevoteType, tmproto.PrecommitType} {
						var vs *types.VoteSet
						if typ == tmproto.PrevoteType {
							vs = rsi.Votes.Prevotes(r)
						} else {
							vs = rsi.Votes.Precommits(r)
						}
						if vs == nil {
							continue
						}
						if bid, ok := vs.TwoThirdsMajority(); ok {
							_ = dst.CS.VerifVotes().SetPeerMaj23(r, typ, peerID(i), bid)
							n.sendClaimed(i, j, dst, r, typ, bid, votesOf(vs))
						}
						for _, v := range votesOf(vs) {
							n.gsend(i, j, &cs.VoteMessage{Vote: v})
						}
					}
				}
				if rsi.LastCommit != nil && rsj.Step == cstypes.RoundStepNewHeight {
					for _, v := range votesOf(rsi.LastCommit) {
						n.gsend(i, j, &cs.VoteMessage{Vote: v})
					}
				}
			case rsi.Height > rsj.Height:
				// j lags: serve the decision of j's height from i's store
				h := rsj.Height
				commit := src.Blocks.LoadBlockCommit(h)
				if commit == nil {
					commit = src.Blocks.LoadSeenCommit(h)
				}
				meta := src.Blocks.LoadBlockMeta(h)
				if commit == nil || meta == nil {
					continue
				}
				// the reactor's queryMaj23Routine tells a lagging peer which block the stored commit is for,
				// so that precommits conflicting with what a faulty validator sent it earlier are accepted
				if rsj.Votes != nil {
					_ = dst.CS.VerifVotes().SetPeerMaj23(commit.Round, tmproto.PrecommitType, peerID(i), commit.BlockID)
					var cv []*types.Vote
					for idx := range commit.Signatures {
						if commit.Signatures[idx].ForBlock() {
							cv = append(cv, commit.GetVote(int32(idx)))
						}
					}
					n.sendClaimed(i, j, dst, commit.Round, tmproto.PrecommitType, commit.BlockID, cv)
				}
				for idx := range commit.Signatures {
					if commit.Signatures[idx].ForBlock() {
						n.gsend(i, j, &cs.VoteMessage{Vote: commit.GetVote(int32(idx))})
					}
				}
				for k := 0; k < int(meta.BlockID.PartSetHeader.Total); k++ {
					if p := src.Blocks.LoadBlockPart(h, k); p != nil {
						n.gsend(i, j, &cs.BlockPartMessage{Height: h, Round: commit.Round, Part: p})
					}
				}
			}
		}
	}
}

// sendClaimed models the reactor's VoteSetMaj23 / VoteSetBits exchange: after a
// majority claim for bid the peer reports which votes FOR THAT BLOCK it holds, and
// the votes it lacks are sent even if a vote of the same validator went out
// before (it may have been refused as conflicting when there was no claim yet).
// Once more per context at most.
func (n *Net) sendClaimed(i, j int, dst *Node, r int32, typ tmproto.SignedMsgType, bid types.BlockID, votes []*types.Vote) {
	var vs *types.VoteSet
	if hv := dst.CS.VerifVotes(); hv != nil {
		if typ == tmproto.PrevoteType {
			vs = hv.Prevotes(r)
		} else {
			vs = hv.Precommits(r)
		}
	}
	if vs == nil {
		return
	}
	has := vs.BitArrayByBlockID(bid)
	for _, v := range votes {
		if !v.BlockID.Equals(bid) || (has != nil && has.GetIndex(int(v.ValidatorIndex))) {
			continue
		}
		key := "VC" + string(v.Signature)
		if n.curSent != nil {
			if n.curSent[key] {
				continue
			}
			n.curSent[key] = true
		}
		n.Send(i, j, &cs.VoteMessage{Vote: v})
	}
}

// gsend puts a message in flight unless it was already gossiped to that node in its current context.
func (n *Net) gsend(i, j int, m cs.Message) {
	var key string
	switch x := m.(type) {
	case *cs.ProposalMessage:
		key = "P" + string(x.Proposal.Signature)
	case *cs.BlockPartMessage:
		key = fmt.Sprintf("B%d/%s/%d", x.Height, partRoot(x.Part), x.Part.Index)
	case *cs.VoteMessage:
		key = "V" + string(x.Vote.Signature)
	}
	if n.curSent != nil {
		if n.curSent[key] {
			return
		}
		n.curSent[key] = true
	}
	n.Send(i, j, m)
}

func (n *Net) allDecided(h int64) bool {
	for _, i := range n.Order {
		if n.Nodes[i].Blocks.Height() < h {
			return false
		}
	}
	return true
}

// PendingMin returns the correct node whose pending timeout has the lowest
// (height, round, step), or -1 if no node has a pending timeout.
func (n *Net) PendingMin() int {
	best := -1
	var bt cs.VerifTimeout
	for _, i := range n.Order {
		t, ok := n.Nodes[i].Ticker.Pending()
		if !ok || n.Nodes[i].Halted != "" {
			continue
		}
		if best < 0 || t.Height < bt.Height || (t.Height == bt.Height && (t.Round < bt.Round || (t.Round == bt.Round && t.Step < bt.Step))) {
			best, bt = i, t
		}
	}
	return best
}

// SyncResult of a synchronous suffix.
type SyncResult struct {
	Decided  bool // every correct node decided the target height
	Wedged   bool // nothing in flight, gossip changes nothing, no timeout pending
	MaxRound int32
	Iter     int
	Budget   bool // iteration budget exhausted (inconclusive)
	Halted   bool // a correct node stopped on a consensus panic
}

// RunSync runs the synchronous suffix until every correct node has decided
// height target: deliver everything, gossip until nothing changes, and only
// then fire the lowest pending timeout.  byz (may be nil) is called at every
// quiescent point so that faulty validators keep misbehaving.  roundCap stops
// the run when a node passes that round at the target height.
func (n *Net) RunSync(target int64, roundCap int32, maxIter int, byz func()) SyncResult {
	n.PartOn = false
	n.Synchronous = true
	n.stopAt = target
	defer func() { n.stopAt = 0 }()
	res := SyncResult{}
	for res.Iter = 0; res.Iter < maxIter; res.Iter++ {
		n.DeliverAll(1 << 20)
		done := true
		for _, i := range n.Order {
			nd := n.Nodes[i]
			rs := nd.CS.GetRoundState()
			if rs.Height == target && rs.Round > res.MaxRound {
				res.MaxRound = rs.Round
			}
			if nd.Blocks.Height() < target {
				done = false
			}
		}
		if done {
			res.Decided = true
			return res
		}
		if len(n.HaltedNodes()) > 0 {
			res.Halted = true
			return res
		}
		if res.MaxRound > roundCap {
			return res
		}
		fp := n.fingerprint()
		n.Gossip()
		n.DeliverAll(1 << 20)
		if n.fingerprint() != fp {
			continue
		}
		if byz != nil {
			// faulty validators keep acting, but cannot hold back the correct nodes' clocks
			byz()
			n.DeliverAll(1 << 20)
		}
		i := n.PendingMin()
		if i < 0 {
			res.Wedged = true
			return res
		}
		n.FireTimeout(i)
	}
	res.Budget = true
	return res
}
