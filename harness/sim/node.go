// Package sim is the deterministic network simulator of DESIGN.md 2.3: real
// consensus.State objects that are never Start()ed, driven by one scheduler
// goroutine through the verif entry points of package consensus.
package sim

import (
	"fmt"
	"sync"
	"time"

	dbm "github.com/tendermint/tm-db"

	cfg "github.com/tendermint/tendermint/config"
	cs "github.com/tendermint/tendermint/consensus"
	"github.com/tendermint/tendermint/crypto"
	"github.com/tendermint/tendermint/evidence"
	"github.com/tendermint/tendermint/libs/log"
	"github.com/tendermint/tendermint/mempool/mock"
	tmproto "github.com/tendermint/tendermint/proto/tendermint/types"
	"github.com/tendermint/tendermint/proxy"
	sm "github.com/tendermint/tendermint/state"
	"github.com/tendermint/tendermint/store"
	"github.com/tendermint/tendermint/types"

	"verif/chaingen"
	"verif/recapp"
)

// Signed is one signature released by a validator's key, recorded at the
// PrivValidator boundary.
type Signed struct {
	Seq       int
	Kind      string // "proposal" | "prevote" | "precommit"
	Height    int64
	Round     int32
	BlockID   types.BlockID
	POLRound  int32
	SignBytes []byte
	Timestamp time.Time
	Signature []byte
	Step      int // scheduler step at which it was released
}

// JournalPV wraps a PrivValidator and journals every signature it releases.
type JournalPV struct {
	Inner   types.PrivValidator
	ChainID string
	mu      sync.Mutex
	Log     []Signed
	Clock   func() int
}

func (p *JournalPV) GetPubKey() (crypto.PubKey, error) { return p.Inner.GetPubKey() }

func (p *JournalPV) SignVote(chainID string, vote *tmproto.Vote) error {
	if err := p.Inner.SignVote(chainID, vote); err != nil {
		return err
	}
	kind := "prevote"
	if vote.Type == tmproto.PrecommitType {
		kind = "precommit"
	}
	bid, _ := types.BlockIDFromProto(&vote.BlockID)
	p.mu.Lock()
	defer p.mu.Unlock()
	s := Signed{Seq: len(p.Log), Kind: kind, Height: vote.Height, Round: vote.Round, BlockID: *bid,
		SignBytes: types.VoteSignBytes(chainID, vote), Timestamp: vote.Timestamp, Signature: append([]byte{}, vote.Signature...)}
	if p.Clock != nil {
		s.Step = p.Clock()
	}
	p.Log = append(p.Log, s)
	return nil
}

func (p *JournalPV) SignProposal(chainID string, proposal *tmproto.Proposal) error {
	if err := p.Inner.SignProposal(chainID, proposal); err != nil {
		return err
	}
	bid, _ := types.BlockIDFromProto(&proposal.BlockID)
	p.mu.Lock()
	defer p.mu.Unlock()
	s := Signed{Seq: len(p.Log), Kind: "proposal", Height: proposal.Height, Round: proposal.Round, BlockID: *bid, POLRound: proposal.PolRound,
		SignBytes: types.ProposalSignBytes(chainID, proposal), Timestamp: proposal.Timestamp, Signature: append([]byte{}, proposal.Signature...)}
	if p.Clock != nil {
		s.Step = p.Clock()
	}
	p.Log = append(p.Log, s)
	return nil
}

// nodeMempool returns node-specific txs so that proposals of different nodes differ.
type nodeMempool struct {
	mock.Mempool
	idx   int
	calls int
	txs   func(node, call int) types.Txs
}

func (m *nodeMempool) ReapMaxBytesMaxGas(maxBytes, maxGas int64) types.Txs {
	m.calls++
	if m.txs != nil {
		return m.txs(m.idx, m.calls)
	}
	return types.Txs{types.Tx(fmt.Sprintf("n%d-c%d=x", m.idx, m.calls))}
}

// Delivered is one entry of a node's delivery journal.
type Delivered struct {
	Step     int
	AtHeight int64 // node's height when delivered
	Kind     string
	Vote     *types.Vote
	PartRoot string // hex of the Merkle root the part proves membership in
	PartIdx  uint32
	Proposal *types.Proposal
	Internal bool
}

// Node is one correct validator: real consensus state + executor + stores.
type Node struct {
	Idx      int // validator index in the genesis list / key list
	CS       *cs.State
	Ticker   *cs.VerifTicker
	PV       *JournalPV
	BlockDB  dbm.DB
	StateDB  dbm.DB
	EvDB     dbm.DB
	Blocks   *store.BlockStore
	States   sm.Store
	Exec     *sm.BlockExecutor
	EvPool   *evidence.Pool
	App      *recapp.App
	Conns    proxy.AppConns
	Bus      *types.EventBus
	Mempool  *nodeMempool
	Journal  []Delivered
	PreState map[int64]sm.State // state before height h was decided
	Decided  int64              // highest height audited by the monitors
	Config   *cfg.ConsensusConfig
	WALPath  string
	Halted   string // non-empty: the panic value that stopped this node
}

// NodeOpt tunes node construction.
type NodeOpt struct {
	SkipTimeoutCommit bool
	WAL               cs.WAL
	PV                types.PrivValidator // default: MockPV of the key
	Txs               func(node, call int) types.Txs
	Clock             func() int
	Config            *cfg.ConsensusConfig
	RealTicker        bool // keep the production timeout ticker (for nodes that are really Start()ed)
	// Optional injection (nil = fresh MemDB / fresh recapp): the databases the node's stores run on (e.g. a
	// crash-injecting wrapper) and the application.  A given App is used as it is (the caller has run
	// InitChain on it or it continues an existing chain); AppOptions configures the app NewNode creates itself.
	BlockDB    dbm.DB
	StateDB    dbm.DB
	EvDB       dbm.DB
	App        *recapp.App
	AppOptions *recapp.Options
}

// NewNode assembles a node exactly like newStateWithConfigAndBlockStore in the
// repo's tests (plus a real evidence pool), but does not Start() it.
func NewNode(idx int, genDoc *types.GenesisDoc, key crypto.PrivKey, opt NodeOpt) *Node {
	n := &Node{Idx: idx, BlockDB: opt.BlockDB, StateDB: opt.StateDB, EvDB: opt.EvDB, App: opt.App, PreState: map[int64]sm.State{}}
	if n.BlockDB == nil {
		n.BlockDB = dbm.NewMemDB()
	}
	if n.StateDB == nil {
		n.StateDB = dbm.NewMemDB()
	}
	if n.EvDB == nil {
		n.EvDB = dbm.NewMemDB()
	}
	n.build(genDoc, key, opt)
	return n
}

func (n *Node) build(genDoc *types.GenesisDoc, key crypto.PrivKey, opt NodeOpt) {
	n.States = sm.NewStore(n.StateDB, sm.StoreOptions{})
	n.Blocks = store.NewBlockStore(n.BlockDB)
	state, err := n.States.Load()
	if err != nil {
		panic(err)
	}
	fresh := state.IsEmpty()
	if fresh {
		state, err = sm.MakeGenesisState(genDoc)
		if err != nil {
			panic(err)
		}
		if err := n.States.Save(state); err != nil {
			panic(err)
		}
	}
	if n.App == nil {
		ao := recapp.Options{}
		if opt.AppOptions != nil {
			ao = *opt.AppOptions
		}
		n.App = recapp.New(ao)
		n.App.InitChain(chaingen.InitChainReq(genDoc))
	}
	n.Conns = proxy.NewAppConns(proxy.NewLocalClientCreator(n.App))
	n.Conns.SetLogger(log.NewNopLogger())
	if err := n.Conns.Start(); err != nil {
		panic(err)
	}
	n.EvPool, err = evidence.NewPool(n.EvDB, n.States, n.Blocks)
	if err != nil {
		panic(err)
	}
	n.Mempool = &nodeMempool{idx: n.Idx, txs: opt.Txs}
	n.Exec = sm.NewBlockExecutor(n.States, log.NewNopLogger(), n.Conns.Consensus(), n.Mempool, n.EvPool)
	conf := opt.Config
	if conf == nil {
		conf = cfg.TestConsensusConfig()
		conf.SkipTimeoutCommit = opt.SkipTimeoutCommit
	}
	n.Config = conf
	n.CS = cs.NewState(conf, state, n.Exec, n.Blocks, n.Mempool, n.EvPool)
	n.CS.SetLogger(log.NewNopLogger())
	inner := opt.PV
	if inner == nil {
		inner = types.NewMockPVWithParams(key, false, false)
	}
	if n.PV == nil {
		n.PV = &JournalPV{Inner: inner, ChainID: genDoc.ChainID, Clock: opt.Clock}
	} else {
		n.PV.Inner = inner
	}
	n.CS.SetPrivValidator(n.PV)
	n.Bus = types.NewEventBus()
	n.Bus.SetLogger(log.NewNopLogger())
	if err := n.Bus.Start(); err != nil {
		panic(err)
	}
	n.CS.SetEventBus(n.Bus)
	if !opt.RealTicker {
		n.Ticker = n.CS.VerifUseTicker()
	}
	if opt.WAL != nil {
		n.CS.VerifSetWAL(opt.WAL)
	}
	h := n.CS.GetRoundState().Height
	if _, ok := n.PreState[h]; !ok {
		n.PreState[h] = n.CS.GetState().Copy()
	}
}

// NewNodeFrom assembles a node on existing databases and an existing
// application (used to replay a WAL into a fresh consensus state).
func NewNodeFrom(idx int, genDoc *types.GenesisDoc, key crypto.PrivKey, opt NodeOpt, blockDB, stateDB, evDB dbm.DB, app *recapp.App) *Node {
	n := &Node{Idx: idx, BlockDB: blockDB, StateDB: stateDB, EvDB: evDB, App: app, PreState: map[int64]sm.State{}}
	n.build(genDoc, key, opt)
	return n
}

// CopyMemDB clones a database into a fresh MemDB.
func CopyMemDB(src dbm.DB) dbm.DB {
	dst := dbm.NewMemDB()
	it, err := src.Iterator(nil, nil)
	if err != nil {
		panic(err)
	}
	defer it.Close()
	for ; it.Valid(); it.Next() {
		k := append([]byte{}, it.Key()...)
		v := append([]byte{}, it.Value()...)
		if err := dst.Set(k, v); err != nil {
			panic(err)
		}
	}
	return dst
}

// Close releases goroutines held by the node (event bus, ABCI clients).
func (n *Node) Close() {
	_ = n.Bus.Stop()
	_ = n.Conns.Stop()
}

// Height the node is working on.
func (n *Node) Height() int64 { return n.CS.GetRoundState().Height }
