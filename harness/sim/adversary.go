package sim

import (
	"fmt"
	"time"

	cs "github.com/tendermint/tendermint/consensus"
	tmproto "github.com/tendermint/tendermint/proto/tendermint/types"
	"github.com/tendermint/tendermint/types"
)

var invalidKinds = []string{"apphash", "time", "valhash", "lastblockid", "height", "proposer", "results"}

// AsyncStep performs one seeded adversary move under full asynchrony.
func (n *Net) AsyncStep() {
	r := n.R
	x := r.Intn(100)
	switch {
	case x < 55 && len(n.InFlight) > 0:
		// deliver (or duplicate) a random in-flight envelope not crossing the cut
		for try := 0; try < 8; try++ {
			k := r.Intn(len(n.InFlight))
			e := n.InFlight[k]
			if n.crossesCut(e) {
				continue
			}
			if r.Intn(20) == 0 {
				n.Stats["duplicated"]++
			} else {
				n.take(k)
			}
			n.Deliver(e)
			return
		}
	case x < 60 && len(n.InFlight) > 0:
		n.take(r.Intn(len(n.InFlight)))
		n.Stats["dropped"]++
	case x < 76:
		// fire a pending timeout somewhere
		i := n.Order[r.Intn(len(n.Order))]
		if !n.FireTimeout(i) {
			n.Stats["timeout_none_pending"]++
		}
	case x < 95 && len(n.Faulty) > 0:
		n.ByzStep()
	case x < 97:
		// toggle / reshuffle a partition
		n.PartOn = !n.PartOn
		if n.PartOn {
			for _, i := range n.Order {
				n.Part[i] = 1 + r.Intn(2)
			}
			n.Stats["partitions"]++
		}
	default:
		// burst: deliver several messages to one node in FIFO order
		if len(n.InFlight) == 0 {
			return
		}
		to := n.InFlight[r.Intn(len(n.InFlight))].To
		cnt := 0
		for k := 0; k < len(n.InFlight) && cnt < 6; {
			e := n.InFlight[k]
			if e.To == to && !n.crossesCut(e) {
				n.InFlight = append(n.InFlight[:k], n.InFlight[k+1:]...)
				n.Deliver(e)
				cnt++
				k = 0
				continue
			}
			k++
		}
	}
}

// ByzStep lets one faulty validator act against one correct node.
func (n *Net) ByzStep() {
	r := n.R
	g := n.Faulty[r.Intn(len(n.Faulty))]
	to := n.Order[r.Intn(len(n.Order))]
	nd := n.Nodes[to]
	rs := nd.CS.GetRoundState()
	h, round := rs.Height, rs.Round
	vals := rs.Validators
	if n.ValIndex(vals, g) < 0 {
		return
	}
	now := time.Now()
	switch x := r.Intn(100); {
	case x < 25:
		// proposal (possibly equivocating: variant depends on the target) if g proposes this round
		pr := round + int32(r.Intn(2))
		if n.ProposerAt(nd, pr) != g {
			n.Stats["byz_not_proposer"]++
			return
		}
		inv := ""
		if r.Intn(4) == 0 {
			inv = invalidKinds[r.Intn(len(invalidKinds))]
		}
		kb := n.ByzBlock(nd, g, pr, r.Intn(2), inv)
		if kb == nil {
			return
		}
		pol := int32(-1)
		if r.Intn(5) == 0 && pr > 0 {
			pol = int32(r.Intn(int(pr))) // POL round claimed without (necessarily) a POL
		}
		msgs := n.ProposalMsgs(g, kb, h, pr, pol)
		if r.Intn(5) == 0 && len(msgs) > 1 {
			msgs = msgs[:len(msgs)-1] // withhold the last part
			n.Stats["byz_withheld_part"]++
		}
		// send to this node, and sometimes to others too
		n.Send(g, to, msgs...)
		for _, j := range n.Order {
			if j != to && r.Intn(3) == 0 {
				n.Send(g, j, msgs...)
			}
		}
		n.Stats["byz_proposals"]++
		if inv != "" {
			n.Stats["byz_invalid_blocks"]++
		}
	case x < 85:
		// vote for a known block / nil / unknown block at a nearby round
		typ := tmproto.PrevoteType
		if r.Intn(2) == 0 {
			typ = tmproto.PrecommitType
		}
		vr := round + int32(r.Intn(3)) - 1
		if vr < 0 {
			vr = 0
		}
		var bid types.BlockID
		switch y := r.Intn(10); {
		case y < 6 && len(n.KnownAt[h]) > 0:
			bid = n.KnownAt[h][r.Intn(len(n.KnownAt[h]))].BlockID
		case y < 8:
			// nil
		default:
			bid = types.BlockID{Hash: randBytes(r, 32), PartSetHeader: types.PartSetHeader{Total: 1, Hash: randBytes(r, 32)}}
		}
		v := n.SignVote(vals, g, typ, h, vr, bid, now)
		targets := []int{to}
		for _, j := range n.Order {
			if j != to && r.Intn(2) == 0 {
				targets = append(targets, j)
			}
		}
		for _, j := range targets {
			n.Send(g, j, &cs.VoteMessage{Vote: v})
		}
		n.Stats["byz_votes"]++
	case x < 92:
		// forged material that must be rejected: bad signature, wrong index, non-validator
		v := n.SignVote(vals, g, tmproto.PrecommitType, h, round, types.BlockID{}, now)
		switch r.Intn(4) {
		case 0:
			v.Signature = randBytes(r, 64)
		case 1:
			// signature of the faulty key presented under a correct validator's index
			victim := n.Order[r.Intn(len(n.Order))]
			v.ValidatorIndex = n.ValIndex(vals, victim)
			v.ValidatorAddress = n.Keys[victim].PubKey().Address()
			if len(n.KnownAt[h]) > 0 {
				v.BlockID = n.KnownAt[h][r.Intn(len(n.KnownAt[h]))].BlockID
			}
		case 2:
			v.Height = h + 1
		case 3:
			// one genuine signature (own key, own address) presented under every other validator's index:
			// index and address are not part of the sign bytes, the vote set has to tie them together
			typ := tmproto.PrevoteType
			if r.Intn(2) == 0 {
				typ = tmproto.PrecommitType
			}
			var bid types.BlockID
			if len(n.KnownAt[h]) > 0 {
				bid = n.KnownAt[h][r.Intn(len(n.KnownAt[h]))].BlockID
			}
			v = n.SignVote(vals, g, typ, h, round, bid, now)
			for _, victim := range n.Order {
				w := *v
				w.ValidatorIndex = n.ValIndex(vals, victim)
				n.Send(g, to, &cs.VoteMessage{Vote: &w})
			}
			n.Stats["byz_votes_own_signature_other_index"]++
		}
		n.Send(g, to, &cs.VoteMessage{Vote: v})
		n.Stats["byz_forged_votes"]++
	default:
		// majority claims, true or false
		var bid types.BlockID
		if len(n.KnownAt[h]) > 0 && r.Intn(3) > 0 {
			bid = n.KnownAt[h][r.Intn(len(n.KnownAt[h]))].BlockID
		}
		typ := tmproto.PrevoteType
		if r.Intn(2) == 0 {
			typ = tmproto.PrecommitType
		}
		_ = nd.CS.VerifVotes().SetPeerMaj23(round, typ, peerID(g), bid)
		n.Stats["byz_maj23_claims"]++
	}
}

func randBytes(r interface{ Read([]byte) (int, error) }, k int) []byte {
	b := make([]byte, k)
	_, _ = r.Read(b)
	return b
}

var _ = fmt.Sprintf
