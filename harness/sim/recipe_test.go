package sim

import (
	"math/rand"
	"testing"
)

func TestSplitLock(t *testing.T) {
	for seed := int64(1); seed <= 6; seed++ {
		r := rand.New(rand.NewSource(seed))
		n := NewNet(r, NetOpt{Seed: seed, Powers: []int64{10, 10, 10, 10}, Faulty: []int{int(seed % 4)}, SkipTimeoutCommit: seed%2 == 0})
		n.TraceOn = true
		n.Start()
		n.Pump()
		label := n.RecipeSplitLock()
		t.Logf("seed %d: %s", seed, label)
		if seed == 1 {
			for _, l := range n.Trace {
				t.Log(l)
			}
			for _, i := range n.Order {
				rs := n.Nodes[i].CS.GetRoundState()
				t.Logf("node %d: %d/%d/%v locked=%v", i, rs.Height, rs.Round, rs.Step, rs.LockedBlock != nil)
			}
		}
		n.Close()
	}
}
