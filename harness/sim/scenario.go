package sim

import (
	"fmt"
	"math/rand"
	"sort"
)

// Config of one execution, drawn from a PRNG.
type Config struct {
	N         int     `json:"n"`
	Powers    []int64 `json:"powers"`
	Faulty    []int   `json:"faulty"`
	Skip      bool    `json:"skip_timeout_commit"`
	Steps     int     `json:"async_steps"`
	Bumps     bool    `json:"power_bumps"`
	InitialH  int64   `json:"initial_height"`
	MaxFaulty string  `json:"faulty_power"`
}

// DrawConfig picks n, powers and a faulty set with strictly less than 1/3 of
// the power (or at least 1/3 if control is set).
func DrawConfig(r *rand.Rand, control bool) Config {
	c := Config{}
	c.N = []int{4, 4, 5, 7}[r.Intn(4)]
	c.Powers = make([]int64, c.N)
	switch r.Intn(3) {
	case 0: // equal
		for i := range c.Powers {
			c.Powers[i] = 10
		}
	case 1: // skewed, ratios <= 5:1
		for i := range c.Powers {
			c.Powers[i] = int64(2 + r.Intn(9))
		}
	case 2: // one validator just below 1/3
		for i := range c.Powers {
			c.Powers[i] = 10
		}
		// total = 10(n-1) + p ; p/(total) < 1/3  <=> 3p < 10(n-1)+p <=> p < 5(n-1)
		c.Powers[0] = int64(5*(c.N-1) - 1)
	}
	total := int64(0)
	for _, p := range c.Powers {
		total += p
	}
	// faulty set: greedy random subset with 3*sum < total (strict)
	perm := r.Perm(c.N)
	sum := int64(0)
	want := r.Intn(3) // 0: none, else as many as fit
	for _, i := range perm {
		if want == 0 {
			break
		}
		if 3*(sum+c.Powers[i]) < total {
			sum += c.Powers[i]
			c.Faulty = append(c.Faulty, i)
		}
	}
	if control {
		// all but two validators are faulty (>= 1/3 of the power by a wide margin)
		c.Faulty = nil
		sum = 0
		for _, i := range perm[:c.N-2] {
			sum += c.Powers[i]
			c.Faulty = append(c.Faulty, i)
		}
	}
	sort.Ints(c.Faulty)
	c.MaxFaulty = fmt.Sprintf("%d/%d", sum, total)
	c.Skip = r.Intn(2) == 0
	c.Steps = 200 + r.Intn(1200)
	c.Bumps = r.Intn(3) == 0
	c.InitialH = 1
	if r.Intn(5) == 0 {
		c.InitialH = int64(2 + r.Intn(1000))
	}
	return c
}

// Mood is a set of adversary move probabilities (per mille) used for a stretch of steps.
type Mood struct {
	Deliver, Drop, Timeout, Byz, Part int
}

var moods = []Mood{
	{550, 50, 160, 190, 20}, // hostile
	{850, 5, 40, 100, 5},    // mostly benign, faulty validators active
	{700, 20, 250, 20, 10},  // timeout-happy
	{900, 0, 60, 40, 0},     // benign
	{500, 30, 60, 400, 10},  // byzantine-heavy
}

// AsyncRun runs `steps` adversary moves, changing mood every ~80 steps.
func (n *Net) AsyncRun(steps int) {
	m := moods[n.R.Intn(len(moods))]
	for s := 0; s < steps; s++ {
		if s%80 == 79 {
			m = moods[n.R.Intn(len(moods))]
		}
		n.moodStep(m)
	}
}

func (n *Net) moodStep(m Mood) {
	r := n.R
	x := r.Intn(m.Deliver + m.Drop + m.Timeout + m.Byz + m.Part)
	switch {
	case x < m.Deliver:
		if len(n.InFlight) == 0 {
			// nothing to deliver: let time pass
			i := n.Order[r.Intn(len(n.Order))]
			n.FireTimeout(i)
			return
		}
		if r.Intn(10) == 0 {
			// burst to one node
			to := n.InFlight[r.Intn(len(n.InFlight))].To
			cnt := 0
			for k := 0; k < len(n.InFlight) && cnt < 8; {
				e := n.InFlight[k]
				if e.To == to && !n.crossesCut(e) {
					n.InFlight = append(n.InFlight[:k], n.InFlight[k+1:]...)
					n.Deliver(e)
					cnt++
					k = 0
					continue
				}
				k++
			}
			return
		}
		for try := 0; try < 8; try++ {
			k := r.Intn(len(n.InFlight))
			e := n.InFlight[k]
			if n.crossesCut(e) {
				continue
			}
			if r.Intn(25) == 0 {
				n.Stats["duplicated"]++
			} else {
				n.take(k)
			}
			n.Deliver(e)
			return
		}
	case x < m.Deliver+m.Drop:
		if len(n.InFlight) > 0 {
			n.take(r.Intn(len(n.InFlight)))
			n.Stats["dropped"]++
		}
	case x < m.Deliver+m.Drop+m.Timeout:
		i := n.Order[r.Intn(len(n.Order))]
		if !n.FireTimeout(i) {
			n.Stats["timeout_none_pending"]++
		}
	case x < m.Deliver+m.Drop+m.Timeout+m.Byz:
		if len(n.Faulty) > 0 {
			n.ByzStep()
		}
	default:
		n.PartOn = !n.PartOn
		if n.PartOn {
			for _, i := range n.Order {
				n.Part[i] = 1 + r.Intn(2)
			}
			n.Stats["partitions"]++
		}
	}
	// keep the in-flight multiset bounded: very old traffic is dropped (loss is allowed)
	if len(n.InFlight) > 4000 {
		n.InFlight = n.InFlight[len(n.InFlight)-2000:]
		n.Stats["dropped"] += 2000
	}
}

// LockView is used for coverage accounting.
type LockView struct {
	Height int64
	Round  int32
	Hash   string
}

// Coverage collected while running.
type Coverage struct {
	SplitLocks int // steps at which >= 2 correct nodes were locked on different blocks at one height
	Locks      int
	Unlocks    int
	Relocks    int
	MaxRound   int32
	Tuples     map[string]bool
	prev       map[int]LockView
}

// Observe updates lock coverage; call after each adversary move.
func (n *Net) Observe(c *Coverage) {
	if c.prev == nil {
		c.prev = map[int]LockView{}
		c.Tuples = map[string]bool{}
	}
	byH := map[int64]map[string]bool{}
	for _, i := range n.Order {
		rs := n.Nodes[i].CS.GetRoundState()
		if rs.Round > c.MaxRound {
			c.MaxRound = rs.Round
		}
		cur := LockView{Height: rs.Height, Round: rs.LockedRound}
		if rs.LockedBlock != nil {
			cur.Hash = string(rs.LockedBlock.Hash())
			if byH[rs.Height] == nil {
				byH[rs.Height] = map[string]bool{}
			}
			byH[rs.Height][cur.Hash] = true
		}
		p, had := c.prev[i]
		if had && p.Height == cur.Height {
			switch {
			case p.Hash == "" && cur.Hash != "":
				c.Locks++
			case p.Hash != "" && cur.Hash == "":
				c.Unlocks++
			case p.Hash != "" && cur.Hash != "" && (p.Hash != cur.Hash || p.Round != cur.Round):
				c.Relocks++
			}
		} else if cur.Hash != "" {
			c.Locks++
		}
		c.prev[i] = cur
		c.Tuples[fmt.Sprintf("%d/%v/%v/%v/%v", rs.Step, rs.LockedRound >= 0, rs.ValidRound >= 0, rs.Proposal != nil, rs.Proposal != nil && rs.Proposal.POLRound >= 0)] = true
	}
	for _, m := range byH {
		if len(m) >= 2 {
			c.SplitLocks++
		}
	}
}
