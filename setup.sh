#!/bin/bash
# Offline setup: builds the harness once so that later checks start from a warm build cache.
set -u
cd "$(dirname "$0")"
export GOFLAGS=-mod=mod GOPROXY=off GOSUMDB=off GOTOOLCHAIN=local
mkdir -p bin evidence replay
( cd harness && { [ -f go.sum ] || cp /repo/go.sum go.sum; } && go build -tags verif -o ../bin/vcheck ./cmd/vcheck && go build -tags verif -race -o ../bin/vcheck-race ./cmd/vcheck ) || exit 1
echo setup ok
