#!/bin/bash
# Re-runs every stored seeded change against the checks that are supposed to catch it (tools/seedmatrix.txt),
# N at a time; writes /var/tmp/verif/seedmatrix.log.  A line with rc=0 for every listed check is a seed nobody catches.
cd /verif
grep -v '^#' tools/seedmatrix.txt | xargs -P ${1:-3} -L 1 tools/seedrun.sh 2>&1 | tee /var/tmp/verif/seedmatrix.log
