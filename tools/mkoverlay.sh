#!/bin/bash
# usage: tools/mkoverlay.sh <name> <repo-relative-file> <sed-expression> [<file> <sed> ...]
# Writes modified copies of /repo files under /var/tmp/verif/ovl/<name>/ and prints the overlay json path.
set -e
name="$1"; shift
d="/var/tmp/verif/ovl/$name"; mkdir -p "$d"
echo '{"Replace":{' > "$d/overlay.json"; first=1
while [ $# -ge 2 ]; do
  f="$1"; expr="$2"; shift 2
  out="$d/$(echo "$f" | tr / _)"
  if [ -f "$out" ]; then src="$out.tmp"; cp "$out" "$src"; else src="/repo/$f"; fi
  sed -E "$expr" "$src" > "$out.new"; mv "$out.new" "$out"
  if cmp -s "$out" "/repo/$f"; then echo "mkoverlay: expression did not change $f" >&2; exit 1; fi
  [ $first = 1 ] || echo ',' >> "$d/overlay.json"; first=0
  echo "\"/repo/$f\":\"$out\"" >> "$d/overlay.json"
done
echo '}}' >> "$d/overlay.json"
echo "$d/overlay.json"
