#!/bin/bash
# usage: tools/seedrun.sh <seed name under /verif/seeded> <check id>...
# Builds the named checks (dev mode) against /repo's CURRENT files with the seed's patch applied (build overlay,
# /repo itself is not touched) and runs their quick tier.  Prints one line per check: exit code and finding keys.
set -u
sd="$1"; shift
src=/var/tmp/verif/seedsrc/$sd; rm -rf "$src"; mkdir -p "$src"
files=$(grep '^+++ b/' /verif/seeded/$sd/patch.diff | sed 's|+++ b/||')
rep=""
for f in $files; do mkdir -p "$src/$(dirname $f)"; cp "/repo/$f" "$src/$f"; rep="$rep\"/repo/$f\":\"$src/$f\","; done
( cd "$src" && patch -p1 -s --no-backup-if-mismatch < /verif/seeded/$sd/patch.diff ) || { echo "$sd: patch does not apply to /repo HEAD"; exit 2; }
ovl=$src/overlay.json; echo "{\"Replace\":{${rep%,}}}" > "$ovl"
for id in "$@"; do
  o=$(cd /verif && VERIF_DEV=1 VERIF_DEV_RACE=${SEED_RACE:-} VERIF_OVERLAY="$ovl" timeout ${SEED_TIMEOUT:-1500} ./run $id ${SEED_TIER:-quick} 2>&1); rc=$?
  echo "$sd vs $id: rc=$rc $(echo "$o" | grep -o 'key=[^ :]*' | sort | uniq -c | tr '\n' ' ')| $(echo "$o" | grep "^$id " | tail -1)"
done
rm -rf "$src"
