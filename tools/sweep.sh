#!/bin/bash
# usage: tools/sweep.sh <seed>...   runs every check's quick tier at each seed (registered path), prints one line per run
cd /verif
for s in "$@"; do for i in $(seq -w 1 20); do
  o=$(VERIF_SEED=$s ./run C$i quick 2>&1); rc=$?
  echo "seed=$s C$i rc=$rc $(echo "$o" | grep -c '^VIOLATION') violations | $(echo "$o" | grep "^C$i " | tail -1)"
done; done
