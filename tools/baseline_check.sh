#!/bin/bash
# Runs the repository's own test suite with the verif guard OFF and compares with /root/.vp/BASELINE.json:
# every test in stable_pass must pass.  usage: tools/baseline_check.sh [pkg pattern ...]   (default ./...)
export GOFLAGS=-mod=mod GOPROXY=off GOSUMDB=off GOTOOLCHAIN=local
out=/var/tmp/verif/baseline_$(date +%s).json
pk="${*:-./...}"
( cd /repo && go test -json -vet=off -count=1 -timeout 25m $pk ) > "$out" 2>/var/tmp/verif/baseline.err
python3 - "$out" <<'PY'
import json,sys
base=json.load(open('/root/.vp/BASELINE.json'))
res={}
for l in open(sys.argv[1], errors='replace'):
    try: e=json.loads(l)
    except Exception: continue
    if e.get('Test') and e.get('Action') in ('pass','fail','skip'):
        res[e['Package']+'::'+e['Test']]=e['Action']
pk=set(k.split('::')[0] for k in res)
want=[t for t in base['stable_pass'] if t.split('::')[0] in pk]
bad=[t for t in want if res.get(t)!='pass']
print('stable tests in scope: %d, passed: %d, not passed: %d' % (len(want), len(want)-len(bad), len(bad)))
for t in bad[:60]: print('  ', res.get(t,'missing'), t)
sys.exit(1 if bad else 0)
PY
rc=$?
rm -f "$out"
exit $rc
