#!/usr/bin/env python3
"""Generates /verif/MANIFEST.json from the table below and validates it."""
import json, os, sys
ROOT = os.path.dirname(os.path.dirname(os.path.abspath(__file__)))
props = [json.loads(l) for l in open(os.path.join(ROOT, 'properties.jsonl'))]
ids = [p['id'] for p in props]

# id -> dict(level, text, note, technique, engine, design_ref, thorough=True)
CHECKS = {}
def chk(id, level, text, note, technique, engine, thorough=True):
    CHECKS[id] = dict(level=level, text=text, note=note, technique=technique, engine=engine, thorough=thorough)

exec(open(os.path.join(ROOT, 'tools', 'checks_table.py')).read())

hook_commits = [l.strip() for l in open(os.path.join(ROOT, 'tools', 'hook_commits.txt')) if l.strip()] if os.path.exists(os.path.join(ROOT, 'tools', 'hook_commits.txt')) else []

m = {
 "version": 1,
 "setup_cmd": "./setup.sh",
 "hooks": {
  "guard": "verif",
  "enable": "go build -tags verif (the harness module /verif/harness replaces github.com/tendermint/tendermint with /repo)",
  "baseline_off_cmd": "cd /repo && GOFLAGS=-mod=mod go test -json -vet=off -count=1 -timeout 25m ./...",
  "source_commits": hook_commits,
  "add_only": True,
 },
 "engines": ENGINES,
 "checks": [],
 "notes": "Runtime monitoring only: every check executes the real code from /repo (rebuilt on every invocation) under generated, hostile or fault-injected workloads and an oracle observes it. Exit 0 held / 1 VIOLATION / 2 harness failure. known_findings.json lists recorded and fixed defects.",
 "not_applicable": [],
}
for id in ids:
    if id in CHECKS:
        c = CHECKS[id]
        e = {
         "property_id": id,
         "quick_cmd": "./run %s quick" % id,
         "evidence_file": "/verif/evidence/%s.json" % id,
         "replay_cmd_template": "./run %s --replay {path}" % id,
         "engine": c['engine'],
         "level_claimed": {"category": c['level'], "text": c['text'], "design_ref": "DESIGN.md section 3, " + id},
         "level_note": c['note'],
         "technique": c['technique'],
        }
        if c['thorough']:
            e["thorough_cmd"] = "./run %s thorough" % id
        m["checks"].append(e)
    else:
        m["not_applicable"].append({"property_id": id, "reason": NOT_BUILT.get(id, "check not built yet in this session; the design for it is in DESIGN.md section 3")})
json.dump(m, open(os.path.join(ROOT, 'MANIFEST.json'), 'w'), indent=1)
try:
    import jsonschema
    jsonschema.validate(m, json.load(open('/root/.vp/MANIFEST.schema.json')))
    print("MANIFEST.json valid;", len(m['checks']), "checks,", len(m['not_applicable']), "not claimed")
except ImportError:
    print("jsonschema not available; written without validation")
