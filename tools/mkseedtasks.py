#!/usr/bin/env python3
"""Writes SEEDED_TASK.md into scratch worktrees /tmp/<prefix>-CNN for seeding sub-agents.
The task text contains only the property text (title, statement, quantifier) and, to avoid
duplicates, one-line descriptions of mechanisms earlier seeders already used.  Nothing from
/verif's checks is given to the seeders.
usage: mkseedtasks.py <prefix> <id> [<id>...]"""
import json, sys, os
props = {}
for l in open('/verif/properties.jsonl'):
    d = json.loads(l)
    props[d['id']] = d
TMPL = '''# Task: seed one realistic defect into Tendermint Core

You work ONLY inside this directory: `{wt}` — a scratch git worktree of Tendermint Core (v0.34.24-based snapshot, Go module github.com/tendermint/tendermint). Do not read or write anything under `/verif` or `/repo` (the checkout you have here is complete). Use this environment for every go command: `export GOFLAGS=-mod=mod GOPROXY=off GOSUMDB=off GOTOOLCHAIN=local` (there is no network). Do not commit; leave your change applied in the working tree.

## The property your change must break

**{title}**

{statement}

It is meant to hold: {quant}.

## What to produce

A change to the non-test Go source of this tree that
1. **breaks the property above** (state precisely which clause),
2. still **compiles** (`go build ./...`) and still **passes the existing tests of every package you touched** and of the packages that obviously exercise it (run them: `go test -count=1 ./<pkg>/...`; some consensus/light tests are timing-sensitive on this loaded machine — rerun once before concluding a failure is yours; two p2p NetAddress tests fail in this sandbox with or without any change because there is no network), and
3. **needs something specific to manifest** — a particular interleaving, a crash or fault at a particular point, a multi-step sequence of operations, an unusual input or configuration, or two cooperating sites that each look fine alone. Do NOT make a change that ordinary use would expose at once (e.g. not "always accept", not "never lock"); think of the kind of subtle regression a plausible refactoring or "optimisation" introduces: an off-by-one at a boundary, a check moved after an early return, a condition that is wrong only for round > 0 / after a validator-set change / after a restart / for the last element / when a cache is smaller than a pool / when a timestamp differs, a lock released too early, a write reordered, an error swallowed on one path.
   Keep it small (typically 1–15 changed lines) and realistic; no build tags, no new dependencies, no changes to *_test.go files of the repo for making them pass.

Also produce a **demonstration**: a new Go test file (put it next to the code, name it `seeded_demo_test.go`, test function names starting with `TestSeeded`) that FAILS with your change and PASSES without it (verify both by toggling ONLY your source change with `git diff -- <files> > SEEDED/patch.diff; git apply -R SEEDED/patch.diff; <run demo>; git apply SEEDED/patch.diff` — NEVER use `git stash`: the stash is shared with other worktrees of this repository and would swap changes between them). The demonstration should show the property violation itself (e.g. two conflicting signatures, a fork, an accepted invalid input, a lost record), not merely that a line changed.

Write into `{wt}/SEEDED/`:
- `patch.diff` — `git diff` of your source change only (without the demo),
- the demo files (copy of them) and `demo.md` saying exactly how to run the demo and what it prints with/without the change,
- `README.md` — which clause of the property breaks, what is needed for it to manifest (the specific trigger), which existing test packages you ran and their result, and why ordinary tests do not notice.

If your first idea turns out to be caught by the existing tests, pick another. Spend your effort on making the change subtle and the demonstration convincing. Final answer: a short summary of the change, trigger, and test results.
'''
TAKEN = json.load(open('/verif/tools/seed_taken.json'))
prefix = sys.argv[1]
for k in sys.argv[2:]:
    wt = '/tmp/%s-%s' % (prefix, k)
    v = props[k]
    t = TMPL.format(wt=wt, title=v['title'], statement=v['statement'], quant=v['quantifier']['text'])
    if TAKEN.get(k):
        t += "\n\nThese ideas are already taken by earlier seeders — pick a DIFFERENT mechanism, preferably a different clause of the property or a code area far from them: " + "; ".join(TAKEN[k]) + ".\n"
    open(os.path.join(wt, 'SEEDED_TASK.md'), 'w').write(t)
    print('wrote', wt)
