ENGINES = [
 {"name": "diff", "path": "harness/ref + harness/checks", "serves_properties": ["C10"], "kind_free_text": "differential runtime monitor: the real function is executed on generated and mutated inputs, an independent reference predicate decides"},
]
NOT_BUILT = {}

chk("C10", "exploration",
    "Real merkle.Proof.Verify, TxProof.Validate, ABCIResults.ProveResult and PartSet.AddPart are executed on ~300k (quick) generated trees, part sets, delivery orders and mutations (index/total/leaf/aunts/bytes, transplants between positions and sets); each verdict is compared with a reference predicate recomputed from the full leaf list. Held = no disagreement on what was executed.",
    "Trusts SHA-256, the RFC 6962 tree shape as re-implemented in harness/ref/merkle.go, protobuf block encoding. Sampled inputs, not all inputs.",
    "differential runtime monitoring against a reference oracle over seeded mutations", "diff")
