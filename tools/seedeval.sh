#!/bin/bash
# usage: tools/seedeval.sh <worktree> <name> "<demo command run inside the worktree>" <check ids...>
# 1. confirms the seeded change: builds, demo fails with it, demo passes without it;
# 2. stores it under /verif/seeded/<name>/ ; 3. runs the given checks against it through a build overlay.
set -u
wt="$1"; name="$2"; demo="$3"; shift 3
export GOFLAGS=-mod=mod GOPROXY=off GOSUMDB=off GOTOOLCHAIN=local
out=/verif/seeded/$name; mkdir -p "$out"
cd "$wt" || exit 2
files=$(git diff --name-only | grep '\.go$' | grep -v '_test\.go$')
[ -n "$files" ] || { echo "no source change in $wt"; exit 2; }
git diff -- $files > "$out/patch.diff"
echo "changed: $files"
go build ./... || { echo "SEED $name: does not build"; exit 2; }
( eval "$demo" ) > "$out/demo_with_change.log" 2>&1; rc_with=$?
git apply -R "$out/patch.diff" || { echo "cannot reverse patch"; exit 2; }
( eval "$demo" ) > "$out/demo_without_change.log" 2>&1; rc_without=$?
git apply "$out/patch.diff" || { echo "cannot re-apply patch"; exit 2; }
echo "SEED $name: demo with change rc=$rc_with (want != 0), without change rc=$rc_without (want 0)"
# package tests of the touched packages with the change applied
pk=$(for f in $files; do dirname "$f"; done | sort -u | sed 's|^|./|' | tr '\n' ' ')
# the seeded demo itself is expected to fail, so exclude it from the regression run
go test -count=1 -timeout 15m -skip 'SeededDemo|Seeded' $pk > "$out/pkg_tests_with_change.log" 2>&1; rc_pkg=$?
echo "SEED $name: package tests ($pk) with change rc=$rc_pkg"
# keep demo + docs
cp -r SEEDED/* "$out"/ 2>/dev/null
for f in $(git status --porcelain | grep -E '^\?\?|^A' | awk '{print $2}' | grep -E 'seeded|SEEDED/demo' ); do mkdir -p "$out/demo_files/$(dirname $f)"; cp -r "$f" "$out/demo_files/$f" 2>/dev/null; done
# overlay for the harness
ovl="$out/overlay.json"; echo '{"Replace":{' > "$ovl"; first=1
# overlay sources = /repo's CURRENT files with the patch applied (the worktree may be based on an older /repo commit)
rm -rf "/var/tmp/verif/seedsrc/$name"
for f in $files; do mkdir -p "/var/tmp/verif/seedsrc/$name/$(dirname $f)"; cp "/repo/$f" "/var/tmp/verif/seedsrc/$name/$f"; done
( cd "/var/tmp/verif/seedsrc/$name" && patch -p1 -s --no-backup-if-mismatch < "$out/patch.diff" ) || { echo "SEED $name: patch does not apply to /repo HEAD; using the worktree's files"; for f in $files; do cp "$f" "/var/tmp/verif/seedsrc/$name/$f"; done; }
for f in $files; do [ $first = 1 ] || echo ',' >> "$ovl"; first=0; echo "\"/repo/$f\":\"/var/tmp/verif/seedsrc/$name/$f\"" >> "$ovl"; done
echo '}}' >> "$ovl"
res=""
for id in "$@"; do
  o=$(cd /verif && VERIF_DEV=1 VERIF_DEV_RACE=${SEED_RACE:-} VERIF_OVERLAY="$ovl" timeout 1500 ./run $id quick 2>&1); rc=$?
  keys=$(echo "$o" | grep -o "key=[^ :]*" | sort | uniq -c | tr '\n' ' ')
  echo "SEED $name vs $id: rc=$rc $keys | $(echo "$o" | tail -1)"
  res="$res {\"check\":\"$id\",\"exit\":$rc,\"keys\":\"$(echo $keys | tr '"' "'")\"},"
done
cat > "$out/meta.json" <<EOM
{"name":"$name","worktree":"$wt","files":"$(echo $files)","demo_cmd":"$(echo "$demo" | tr '"' "'")",
 "demo_rc_with_change":$rc_with,"demo_rc_without_change":$rc_without,"package_tests_rc_with_change":$rc_pkg,
 "checks_run":[${res%,}],
 "how_run":"harness rebuilt with go build -overlay mapping the changed /repo files to the seeded versions (equivalent to git apply in /repo, without disturbing concurrent work)"}
EOM
rm -f "$ovl"
